import TrimeshVerif.Proofs.RevolveGrid
/-
Partial revolve with caps (C15): the grid between the first and the last section of an open revolve, plus the
triangulation of the profile polygon at the first section and its reversal at the last one, is closed and
consistently wound - for every profile that starts and ends on the axis, every number of sections and every
triangulation of the profile polygon.
-/
namespace TV.RevolveGrid
open Finset

section abstract
variable (w : Nat → Nat → Nat)

/-- profile edges at section `j`, first point to last (`up`) and back (`dn`) -/
def up (n j : Nat) : E := ∑ i ∈ range n, ({(w i j, w (i + 1) j)} : E)
def dn (n j : Nat) : E := ∑ i ∈ range n, ({(w (i + 1) j, w i j)} : E)

theorem swap_up (n j : Nat) : Multiset.map Prod.swap (up w n j) = dn w n j := by
  unfold up dn
  rw [← Multiset.coe_mapAddMonoidHom, map_sum]
  simp

theorem swap_dn (n j : Nat) : Multiset.map Prod.swap (dn w n j) = up w n j := by
  unfold up dn
  rw [← Multiset.coe_mapAddMonoidHom, map_sum]
  simp

theorem map_swap_sum1 (s : Nat) (f : Nat → E) :
    Multiset.map Prod.swap (∑ j ∈ range s, f j) = ∑ j ∈ range s, Multiset.map Prod.swap (f j) := by
  rw [← Multiset.coe_mapAddMonoidHom, map_sum]

/-- all triangles of the open grid (sections `0 .. s`), together with the profile run upwards at the first section
    and downwards at the last one, are closed under reversal -/
theorem open_full_sym (n s : Nat) (h0 : ∀ j, w 0 (j + 1) = w 0 j) (hn : ∀ j, w n (j + 1) = w n j) :
    Multiset.map Prod.swap (∑ j ∈ range s, ∑ i ∈ range n, (eA w i j + eB w i j) + up w n 0 + dn w n s)
      = ∑ j ∈ range s, ∑ i ∈ range n, (eA w i j + eB w i j) + up w n 0 + dn w n s := by
  rw [Multiset.map_add, Multiset.map_add, swap_up, swap_dn, map_swap_sum2]
  simp only [eA, eB, Multiset.map_add, Multiset.map_singleton, Prod.swap_prod_mk, sum_add_distrib]
  -- horizontal edges telescope along every section exactly as in the full turn
  have hh : ∑ j ∈ range s, ∑ i ∈ range n, ({(w i j, w i (j + 1))} : E)
        + ∑ j ∈ range s, ∑ i ∈ range n, ({(w (i + 1) (j + 1), w (i + 1) j)} : E)
      = ∑ j ∈ range s, ∑ i ∈ range n, ({(w i (j + 1), w i j)} : E)
        + ∑ j ∈ range s, ∑ i ∈ range n, ({(w (i + 1) j, w (i + 1) (j + 1))} : E) := by
    rw [← sum_add_distrib, ← sum_add_distrib]
    refine sum_congr rfl (fun j _ => ?_)
    exact sum_telescope (fun i => ({(w i j, w i (j + 1))} : E)) (fun i => {(w i (j + 1), w i j)}) n
      (by simp [h0]) (by simp [hn])
  -- profile edges: downwards at sections 0 .. s-1 and upwards at 1 .. s from the grid, the two missing ones given
  have hu : ∑ j ∈ range s, ∑ i ∈ range n, ({(w i (j + 1), w (i + 1) (j + 1))} : E) + up w n 0
      = ∑ j ∈ range s, ∑ i ∈ range n, ({(w i j, w (i + 1) j)} : E) + up w n s := by
    have e1 := sum_range_succ' (fun j => ∑ i ∈ range n, ({(w i j, w (i + 1) j)} : E)) s
    have e2 := sum_range_succ (fun j => ∑ i ∈ range n, ({(w i j, w (i + 1) j)} : E)) s
    unfold up
    rw [← e1, e2]
  have hd : ∑ j ∈ range s, ∑ i ∈ range n, ({(w (i + 1) (j + 1), w i (j + 1))} : E) + dn w n 0
      = ∑ j ∈ range s, ∑ i ∈ range n, ({(w (i + 1) j, w i j)} : E) + dn w n s := by
    have e1 := sum_range_succ' (fun j => ∑ i ∈ range n, ({(w (i + 1) j, w i j)} : E)) s
    have e2 := sum_range_succ (fun j => ∑ i ∈ range n, ({(w (i + 1) j, w i j)} : E)) s
    unfold dn
    rw [← e1, e2]
  -- name the six families and finish by commutative algebra
  generalize ∑ j ∈ range s, ∑ i ∈ range n, ({(w i j, w i (j + 1))} : E) = H at *
  generalize ∑ j ∈ range s, ∑ i ∈ range n, ({(w i (j + 1), w i j)} : E) = H' at *
  generalize ∑ j ∈ range s, ∑ i ∈ range n, ({(w (i + 1) (j + 1), w (i + 1) j)} : E) = Hp at *
  generalize ∑ j ∈ range s, ∑ i ∈ range n, ({(w (i + 1) j, w (i + 1) (j + 1))} : E) = Hp' at *
  generalize ∑ j ∈ range s, ∑ i ∈ range n, ({(w i (j + 1), w (i + 1) j)} : E) = D at *
  generalize ∑ j ∈ range s, ∑ i ∈ range n, ({(w (i + 1) j, w i (j + 1))} : E) = D' at *
  generalize ∑ j ∈ range s, ∑ i ∈ range n, ({(w (i + 1) j, w i j)} : E) = Vd at *
  generalize ∑ j ∈ range s, ∑ i ∈ range n, ({(w i j, w (i + 1) j)} : E) = Vu at *
  generalize ∑ j ∈ range s, ∑ i ∈ range n, ({(w i (j + 1), w (i + 1) (j + 1))} : E) = Vu1 at *
  generalize ∑ j ∈ range s, ∑ i ∈ range n, ({(w (i + 1) (j + 1), w i (j + 1))} : E) = Vd1 at *
  -- goal: H' + D' + Vu + (D + Vd1 + Hp') + dn 0 + up s = H + D + Vd + (D' + Vu1 + Hp) + up 0 + dn s
  calc H' + D' + Vu + (D + Vd1 + Hp') + dn w n 0 + up w n s
      = (H' + Hp') + (D + D') + (Vd1 + dn w n 0) + (Vu + up w n s) := by abel
    _ = (H + Hp) + (D + D') + (Vd + dn w n s) + (Vu1 + up w n 0) := by rw [hd, ← hu, ← hh]
    _ = H + D + Vd + (D' + Vu1 + Hp) + up w n 0 + dn w n s := by abel

/-- the same without the degenerate triangles at the axis -/
theorem open_kept_sym (m s : Nat) (h0 : ∀ j, w 0 (j + 1) = w 0 j) (hn : ∀ j, w (m + 1) (j + 1) = w (m + 1) j) :
    Multiset.map Prod.swap (∑ j ∈ range s, ∑ i ∈ range (m + 1), eK w m i j + up w (m + 1) 0 + dn w (m + 1) s)
      = ∑ j ∈ range s, ∑ i ∈ range (m + 1), eK w m i j + up w (m + 1) 0 + dn w (m + 1) s := by
  have hsum : ∑ j ∈ range s, ∑ i ∈ range (m + 1), eK w m i j
        + ∑ j ∈ range s, ∑ i ∈ range (m + 1), eD w m i j
      = ∑ j ∈ range s, ∑ i ∈ range (m + 1), (eA w i j + eB w i j) := by
    rw [← sum_add_distrib]
    refine sum_congr rfl (fun j _ => ?_)
    rw [← sum_add_distrib]
    exact sum_congr rfl (fun i _ => eK_add_eD w m i j)
  have hD : Multiset.map Prod.swap (∑ j ∈ range s, ∑ i ∈ range (m + 1), eD w m i j)
      = ∑ j ∈ range s, ∑ i ∈ range (m + 1), eD w m i j := by
    simp only [sum_eD]
    rw [← Multiset.coe_mapAddMonoidHom, map_sum]
    refine sum_congr rfl (fun j _ => ?_)
    rw [Multiset.coe_mapAddMonoidHom, Multiset.map_add, eA0_sym w j (h0 j), eBn_sym w m j (hn j)]
  have hF := open_full_sym w (m + 1) s h0 hn
  rw [← hsum] at hF
  generalize ∑ j ∈ range s, ∑ i ∈ range (m + 1), eK w m i j = Kp at *
  generalize ∑ j ∈ range s, ∑ i ∈ range (m + 1), eD w m i j = Dg at *
  have e : Kp + Dg + up w (m + 1) 0 + dn w (m + 1) s = (Kp + up w (m + 1) 0 + dn w (m + 1) s) + Dg := by abel
  rw [e, Multiset.map_add, hD] at hF
  exact add_right_cancel hF

theorem axis_const (r : Nat) (h : ∀ j, w r (j + 1) = w r j) : ∀ j, w r j = w r 0
  | 0 => rfl
  | j + 1 => by rw [h j, axis_const r h j]

/-- directed edges of a triangle list after renaming the vertices -/
theorem em_map (f : Nat → Nat) (fs : List Face) :
    em (fs.map (mapFace f)) = Multiset.map (Prod.map f f) (em fs) := by
  induction fs with
  | nil => rfl
  | cons t ts ih =>
    have h1 : em ((t :: ts).map (mapFace f)) = em [mapFace f t] + em (ts.map (mapFace f)) := by
      rw [List.map_cons]; exact em_append [_] _
    have h2 : em (t :: ts) = em [t] + em ts := em_append [t] ts
    rw [h1, h2, Multiset.map_add, ih, em_single, em_single]
    simp only [Multiset.map_add, Multiset.map_singleton, Prod.map_apply, mapFace]

theorem map_sum_single (g : Nat × Nat → Nat × Nat) (n : Nat) (f : Nat → Nat × Nat) :
    Multiset.map g (∑ i ∈ range n, ({f i} : E)) = ∑ i ∈ range n, ({g (f i)} : E) := by
  rw [← Multiset.coe_mapAddMonoidHom, map_sum]
  simp

/-- reversing every face reverses every directed edge -/
theorem em_reverse (fs : List Face) :
    em (fs.map (fun t => (t.2.2, t.2.1, t.1))) = Multiset.map Prod.swap (em fs) := by
  induction fs with
  | nil => rfl
  | cons t ts ih =>
    have h1 : em ((t :: ts).map (fun t => (t.2.2, t.2.1, t.1))) = em [(t.2.2, t.2.1, t.1)] + em (ts.map (fun t => (t.2.2, t.2.1, t.1))) := by
      rw [List.map_cons]; exact em_append [_] _
    have h2 : em (t :: ts) = em [t] + em ts := em_append [t] ts
    rw [h1, h2, Multiset.map_add, ih, em_single, em_single]
    simp only [Multiset.map_add, Multiset.map_singleton, Prod.swap_prod_mk]
    abel_nf

/-- a triangulation of the profile polygon `0 → 1 → … → n → 0`: interior edges in opposite pairs, boundary edges in
    polygon order -/
def IsCap (n : Nat) (T : List Face) : Prop :=
  ∃ I : E, Multiset.map Prod.swap I = I ∧
    em T = I + ∑ i ∈ range n, ({(i, i + 1)} : E) + {(n, 0)}

/-- **partial revolve with caps, abstract form** -/
theorem open_capped_sym (m s : Nat) (h0 : ∀ j, w 0 (j + 1) = w 0 j) (hn : ∀ j, w (m + 1) (j + 1) = w (m + 1) j)
    (T : List Face) (hT : IsCap (m + 1) T) :
    let G := ∑ j ∈ range s, ∑ i ∈ range (m + 1), eK w m i j
    let total := G + em (T.map (mapFace (fun i => w i 0)))
                   + em ((T.map (mapFace (fun i => w i s))).map (fun t => (t.2.2, t.2.1, t.1)))
    Multiset.map Prod.swap total = total := by
  intro G total
  obtain ⟨I, hI, hem⟩ := hT
  have hk : Multiset.map Prod.swap (G + up w (m + 1) 0 + dn w (m + 1) s) = G + up w (m + 1) 0 + dn w (m + 1) s :=
    open_kept_sym w m s h0 hn
  have c0 := axis_const w 0 h0 s
  have cn := axis_const w (m + 1) hn s
  have e0 : em (T.map (mapFace (fun i => w i 0)))
      = Multiset.map (Prod.map (fun i => w i 0) (fun i => w i 0)) I + up w (m + 1) 0 + {(w (m + 1) 0, w 0 0)} := by
    rw [em_map, hem, Multiset.map_add, Multiset.map_add, Multiset.map_singleton]
    congr 2
    unfold up
    rw [map_sum_single]
    rfl
  have es : em ((T.map (mapFace (fun i => w i s))).map (fun t => (t.2.2, t.2.1, t.1)))
      = Multiset.map Prod.swap (Multiset.map (Prod.map (fun i => w i s) (fun i => w i s)) I) + dn w (m + 1) s
        + {(w 0 0, w (m + 1) 0)} := by
    rw [em_reverse, em_map, hem, Multiset.map_add, Multiset.map_add, Multiset.map_add, Multiset.map_add,
      Multiset.map_singleton, Multiset.map_singleton]
    simp only [Prod.map_apply, Prod.swap_prod_mk, c0, cn]
    congr 2
    unfold dn
    rw [map_sum_single, map_sum_single]
    rfl
  -- the relabelled interior edges stay closed under reversal
  have hI0 : Multiset.map Prod.swap (Multiset.map (Prod.map (fun i => w i 0) (fun i => w i 0)) I)
      = Multiset.map (Prod.map (fun i => w i 0) (fun i => w i 0)) I := by
    conv_rhs => rw [← hI]
    simp only [Multiset.map_map]
    congr 1
  have hIs : Multiset.map Prod.swap (Multiset.map Prod.swap (Multiset.map (Prod.map (fun i => w i s) (fun i => w i s)) I))
      = Multiset.map Prod.swap (Multiset.map (Prod.map (fun i => w i s) (fun i => w i s)) I) := by
    have : Multiset.map Prod.swap (Multiset.map (Prod.map (fun i => w i s) (fun i => w i s)) I)
        = Multiset.map (Prod.map (fun i => w i s) (fun i => w i s)) I := by
      conv_rhs => rw [← hI]
      simp only [Multiset.map_map]
      congr 1
    rw [this, this]
  show Multiset.map Prod.swap (G + _ + _) = G + _ + _
  rw [e0, es]
  generalize Multiset.map (Prod.map (fun i => w i 0) (fun i => w i 0)) I = J0 at *
  generalize Multiset.map Prod.swap (Multiset.map (Prod.map (fun i => w i s) (fun i => w i s)) I) = Js at *
  have regroup : G + (J0 + up w (m + 1) 0 + {(w (m + 1) 0, w 0 0)}) + (Js + dn w (m + 1) s + {(w 0 0, w (m + 1) 0)})
      = (G + up w (m + 1) 0 + dn w (m + 1) s) + (J0 + Js) + ({(w (m + 1) 0, w 0 0)} + {(w 0 0, w (m + 1) 0)}) := by
    abel
  have hJ : Multiset.map Prod.swap (J0 + Js) = J0 + Js := by rw [Multiset.map_add, hI0, hIs]
  have hX : Multiset.map Prod.swap (({(w (m + 1) 0, w 0 0)} : E) + {(w 0 0, w (m + 1) 0)})
      = {(w (m + 1) 0, w 0 0)} + {(w 0 0, w (m + 1) 0)} := by
    simp only [Multiset.map_add, Multiset.map_singleton, Prod.swap_prod_mk]
    abel
  rw [regroup, Multiset.map_add, Multiset.map_add, hk, hJ, hX]

theorem cap_alg {M : Type} [AddCancelCommMonoid M] (sG G sX0 X0 sXs Xs up0 sup0 ups dns a sa : M)
    (hk : sG + sup0 + ups = G + up0 + dns)
    (h0 : sX0 + up0 + a = X0 + sup0 + sa)
    (hs : sXs + ups + a = Xs + dns + sa) :
    sG + sX0 + Xs = G + X0 + sXs := by
  apply add_right_cancel (b := up0 + a + dns + sa + sup0 + ups)
  calc sG + sX0 + Xs + (up0 + a + dns + sa + sup0 + ups)
      = (sG + sup0 + ups) + (sX0 + up0 + a) + (Xs + dns + sa) := by abel
    _ = (G + up0 + dns) + (X0 + sup0 + sa) + (sXs + ups + a) := by rw [hk, h0, hs]
    _ = G + X0 + sXs + (up0 + a + dns + sa + sup0 + ups) := by abel

/-- boundary of the profile polygon as a multiset -/
def Bd (n : Nat) : E := ∑ i ∈ range n, ({(i, i + 1)} : E) + {(n, 0)}

/-- the decidable form of `IsCap`: no interior edges named -/
def CapEq (n : Nat) (T : List Face) : Prop :=
  Multiset.map Prod.swap (em T) + Bd n = em T + Multiset.map Prod.swap (Bd n)

theorem IsCap.capEq {n : Nat} {T : List Face} (h : IsCap n T) : CapEq n T := by
  obtain ⟨I, hI, hem⟩ := h
  unfold CapEq
  have : em T = I + Bd n := by rw [hem]; unfold Bd; abel
  rw [this, Multiset.map_add, hI]
  abel

theorem map_Bd (n j : Nat) :
    Multiset.map (Prod.map (fun i => w i j) (fun i => w i j)) (Bd n) = up w n j + {(w n j, w 0 j)} := by
  unfold Bd up
  rw [Multiset.map_add, map_sum_single, Multiset.map_singleton]
  rfl

theorem map_swap_Bd (n j : Nat) :
    Multiset.map (Prod.map (fun i => w i j) (fun i => w i j)) (Multiset.map Prod.swap (Bd n))
      = dn w n j + {(w 0 j, w n j)} := by
  unfold Bd dn
  rw [Multiset.map_add, Multiset.map_add, map_sum_single, map_sum_single, Multiset.map_singleton, Multiset.map_singleton]
  rfl

theorem map_map_swap (f : Nat → Nat) (X : E) :
    Multiset.map (Prod.map f f) (Multiset.map Prod.swap X) = Multiset.map Prod.swap (Multiset.map (Prod.map f f) X) := by
  simp only [Multiset.map_map]
  congr 1

/-- **partial revolve with caps, abstract form, under the decidable cap condition** -/
theorem open_capped_sym' (m s : Nat) (h0 : ∀ j, w 0 (j + 1) = w 0 j) (hn : ∀ j, w (m + 1) (j + 1) = w (m + 1) j)
    (T : List Face) (hT : CapEq (m + 1) T) :
    let G := ∑ j ∈ range s, ∑ i ∈ range (m + 1), eK w m i j
    let total := G + em (T.map (mapFace (fun i => w i 0)))
                   + em ((T.map (mapFace (fun i => w i s))).map (fun t => (t.2.2, t.2.1, t.1)))
    Multiset.map Prod.swap total = total := by
  intro G total
  have hk : Multiset.map Prod.swap (G + up w (m + 1) 0 + dn w (m + 1) s) = G + up w (m + 1) 0 + dn w (m + 1) s :=
    open_kept_sym w m s h0 hn
  have c0 := axis_const w 0 h0 s
  have cn := axis_const w (m + 1) hn s
  -- the cap condition carried to the two end sections
  have k0 := congrArg (Multiset.map (Prod.map (fun i => w i 0) (fun i => w i 0))) hT
  have ks := congrArg (Multiset.map (Prod.map (fun i => w i s) (fun i => w i s))) hT
  rw [Multiset.map_add, Multiset.map_add, map_Bd, map_swap_Bd, map_map_swap] at k0 ks
  rw [c0, cn] at ks
  show Multiset.map Prod.swap (G + _ + _) = G + _ + _
  rw [em_reverse, em_map, em_map, Multiset.map_add, Multiset.map_add, Multiset.map_map Prod.swap Prod.swap]
  have hss : (Prod.swap ∘ Prod.swap : Nat × Nat → Nat × Nat) = id := by funext x; simp
  rw [hss, Multiset.map_id]
  rw [Multiset.map_add, Multiset.map_add, swap_up, swap_dn] at hk
  generalize Multiset.map (Prod.map (fun i => w i 0) (fun i => w i 0)) (em T) = X0 at *
  generalize Multiset.map (Prod.map (fun i => w i s) (fun i => w i s)) (em T) = Xs at *
  refine cap_alg (Multiset.map Prod.swap G) G (Multiset.map Prod.swap X0) X0 (Multiset.map Prod.swap Xs) Xs
    (up w (m + 1) 0) (dn w (m + 1) 0) (up w (m + 1) s) (dn w (m + 1) s)
    {(w (m + 1) 0, w 0 0)} {(w 0 0, w (m + 1) 0)} hk ?_ ?_
  · rw [← add_assoc, ← add_assoc] at k0; exact k0
  · rw [← add_assoc, ← add_assoc] at ks; exact ks

end abstract

/-- the merged vertex index of profile point `i` on slice `j` of a partial revolve -/
def wO (per i j : Nat) : Nat := ident per (vidO per i j)

theorem em_gridO (m slices : Nat) :
    em ((gridFacesO (m + 2) slices).map (mapFace (ident (m + 2))))
      = ∑ j ∈ Finset.range slices, ∑ i ∈ Finset.range (m + 1), eK (wO (m + 2)) m i j := by
  unfold gridFacesO
  rw [List.map_flatMap, em_flatMap_range]
  refine Finset.sum_congr rfl (fun j _ => ?_)
  unfold sliceFacesO
  rw [List.map_flatMap]
  show em ((List.range (m + 1)).flatMap _) = _
  rw [em_flatMap_range]
  refine Finset.sum_congr rfl (fun i _ => ?_)
  rw [List.map_append, em_append]
  unfold eK
  show _ + em (List.map _ (if i = m then _ else _)) = _
  congr 1
  · split_ifs
    · simp [em_nil]
    · simp [em_single, mapFace, eA, wO]
  · split_ifs
    · simp [em_nil]
    · simp [em_single, mapFace, eB, wO]

theorem coe_bd (n : Nat) : ((bd n : List (Nat × Nat)) : E) = Bd n := by
  unfold bd Bd
  rw [← Multiset.coe_add]
  congr 1
  induction n with
  | zero => rfl
  | succ k ih =>
    rw [List.range_succ, List.map_append, ← Multiset.coe_add, ih, Finset.sum_range_succ]
    rfl

theorem capOk_capEq (n : Nat) (T : List Face) (h : capOk n T = true) : CapEq n T := by
  unfold capOk at h
  rw [List.isPerm_iff] at h
  have := Multiset.coe_eq_coe.mpr h
  unfold CapEq em
  rw [← coe_bd]
  simpa [← Multiset.coe_add, Multiset.map_coe] using this

/-- **a partial revolve with caps is closed and consistently wound** for every number of sections and every
    profile length, for every cap triangulation that satisfies the decidable cap condition -/
theorem revolve_open_closed (per slices : Nat) (hper : 3 ≤ per) (T : List Face) (hT : capOk (per - 1) T = true) :
    Closed (openSurface per slices T) := by
  obtain ⟨m, rfl⟩ : ∃ m, per = m + 2 := ⟨per - 2, by omega⟩
  have hT' : CapEq (m + 1) T := capOk_capEq (m + 1) T hT
  rw [closed_iff]
  symm
  unfold openSurface openRaw
  rw [List.map_append, List.map_append, em_append, em_append, em_gridO]
  have e0 : T.map (mapFace (ident (m + 2))) = T.map (mapFace (fun i => wO (m + 2) i 0)) := by
    apply List.map_congr_left
    intro t _
    simp [mapFace, wO, vidO]
  have es : (((T.map (mapFace (· + slices * (m + 2)))).map flipFace).map (mapFace (ident (m + 2))))
      = (T.map (mapFace (fun i => wO (m + 2) i slices))).map (fun t => (t.2.2, t.2.1, t.1)) := by
    simp only [List.map_map]
    apply List.map_congr_left
    intro t _
    simp [mapFace, flipFace, wO, vidO, Nat.add_comm]
  rw [e0, es]
  apply open_capped_sym' (wO (m + 2)) m slices _ _ T hT'
  · intro j
    simp [wO, vidO, ident]
  · intro j
    have h : ∀ a, (a * (m + 2) + (m + 1)) % (m + 2) = m + 1 := by
      intro a
      rw [Nat.mul_add_mod_self_right]
      exact Nat.mod_eq_of_lt (by omega)
    simp [wO, vidO, ident, h]

/-- the side walls are exactly what the index arithmetic of `creation.revolve` produces for a partial turn
    (`per * (slices + 1)` vertices, no wrap) when the zero-area triangles of an axis-to-axis profile are dropped -/
theorem gridO_eq_revolveFaces (per slices : Nat) (hper : 3 ≤ per) :
    gridFacesO per slices = TV.Creation.revolveFaces per slices (per * (slices + 1)) (axisKeep per) := by
  obtain ⟨m, rfl⟩ : ∃ m, per = m + 2 := ⟨per - 2, by omega⟩
  unfold gridFacesO TV.Creation.revolveFaces
  apply flatMap_congr'
  intro j hj
  have hj' : j < slices := List.mem_range.mp hj
  rw [single_axisKeep, List.map_flatMap]
  unfold sliceFacesO
  show (List.range (m + 1)).flatMap _ = _
  apply flatMap_congr'
  intro i hi
  have hi' : i < m + 1 := List.mem_range.mp hi
  have hb : (j + 1 + 1) * (m + 2) ≤ (slices + 1) * (m + 2) := Nat.mul_le_mul_right _ (by omega)
  rw [Nat.add_mul, Nat.add_mul, Nat.one_mul] at hb
  have lt : ∀ x, x < (j + 1) * (m + 2) + (m + 2) → x % ((m + 2) * (slices + 1)) = x := by
    intro x hx
    apply Nat.mod_eq_of_lt
    rw [Nat.mul_comm (m + 2) (slices + 1)]
    rw [Nat.add_mul, Nat.one_mul] at hx
    omega
  have a1 : (i + j * (m + 2)) % ((m + 2) * (slices + 1)) = vidO (m + 2) i j := by
    rw [lt _ (by rw [Nat.add_mul]; omega)]; unfold vidO; omega
  have a2 : (i + 1 + j * (m + 2)) % ((m + 2) * (slices + 1)) = vidO (m + 2) (i + 1) j := by
    rw [lt _ (by rw [Nat.add_mul]; omega)]; unfold vidO; omega
  have b1 : (m + 2 + i + j * (m + 2)) % ((m + 2) * (slices + 1)) = vidO (m + 2) i (j + 1) := by
    rw [lt _ (by rw [Nat.add_mul]; omega)]; unfold vidO; rw [Nat.add_mul]; omega
  have b2 : (m + 2 + i + 1 + j * (m + 2)) % ((m + 2) * (slices + 1)) = vidO (m + 2) (i + 1) (j + 1) := by
    rw [lt _ (by rw [Nat.add_mul]; omega)]; unfold vidO; rw [Nat.add_mul]; omega
  show _ ++ (if i = m then _ else _) = _
  rw [List.map_append]
  congr 1
  · split_ifs
    · rfl
    · simp only [List.map_cons, List.map_nil, a1, a2, b1]
  · split_ifs
    · rfl
    · simp only [List.map_cons, List.map_nil, a2, b1, b2]

end TV.RevolveGrid
