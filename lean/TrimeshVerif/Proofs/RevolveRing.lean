import TrimeshVerif.Proofs.RevolveGrid
import TrimeshVerif.Proofs.RevolveOpen
/-
Full turn of a closed profile (C15: annulus and every revolve whose linestring returns to its first point away
from the axis), and of an open loop profile (torus): closed and consistently wound for every profile length and
every number of sections.
-/
namespace TV.RevolveGrid
open Finset

section abstract
variable (w : Nat → Nat → Nat)

/-- rows cyclic (row `n` is row 0) and sections cyclic: the whole grid is closed under edge reversal -/
theorem ring_sym (n s : Nat) (hr : ∀ j, w n j = w 0 j) (hs : ∀ i, w i s = w i 0) :
    Multiset.map Prod.swap (∑ j ∈ range s, ∑ i ∈ range n, (eA w i j + eB w i j))
      = ∑ j ∈ range s, ∑ i ∈ range n, (eA w i j + eB w i j) := by
  rw [map_swap_sum2]
  simp only [eA, eB, Multiset.map_add, Multiset.map_singleton, Prod.swap_prod_mk, sum_add_distrib]
  have hv := sum_shift_cyc (fun j => ∑ i ∈ range n, ({(w i j, w (i + 1) j)} : E)) s (by simp [hs])
  have hv' := sum_shift_cyc (fun j => ∑ i ∈ range n, ({(w (i + 1) j, w i j)} : E)) s (by simp [hs])
  have hh : ∑ j ∈ range s, ∑ i ∈ range n, ({(w i j, w i (j + 1))} : E)
        + ∑ j ∈ range s, ∑ i ∈ range n, ({(w (i + 1) (j + 1), w (i + 1) j)} : E)
      = ∑ j ∈ range s, ∑ i ∈ range n, ({(w i (j + 1), w i j)} : E)
        + ∑ j ∈ range s, ∑ i ∈ range n, ({(w (i + 1) j, w (i + 1) (j + 1))} : E) := by
    rw [← sum_add_distrib, ← sum_add_distrib]
    refine sum_congr rfl (fun j _ => ?_)
    have a := sum_shift_cyc (fun i => ({(w i (j + 1), w i j)} : E)) n (by simp [hr])
    have b := sum_shift_cyc (fun i => ({(w i j, w i (j + 1))} : E)) n (by simp [hr])
    rw [a, b, add_comm]
  rw [hv, hv']
  exact alg6 _ _ _ _ _ _ _ _ hh

end abstract

def wR (per slices i j : Nat) : Nat := identR per (vid per slices i j)

theorem em_ring (m slices : Nat) :
    em (ringSurface (m + 2) slices)
      = ∑ j ∈ range slices, ∑ i ∈ range (m + 1), (eA (wR (m + 2) slices) i j + eB (wR (m + 2) slices) i j) := by
  unfold ringSurface gridFacesR
  rw [List.map_flatMap, em_flatMap_range]
  refine sum_congr rfl (fun j _ => ?_)
  unfold sliceFacesR
  rw [List.map_flatMap]
  show em ((List.range (m + 1)).flatMap _) = _
  rw [em_flatMap_range]
  refine sum_congr rfl (fun i _ => ?_)
  have : ∀ a b : Face, [a, b] = [a] ++ [b] := fun _ _ => rfl
  rw [List.map_cons, List.map_cons, List.map_nil, this, em_append, em_single, em_single]
  simp [mapFace, eA, eB, wR]

/-- **a full turn of a closed profile is closed and consistently wound** -/
theorem ring_closed (per slices : Nat) (hper : 2 ≤ per) : Closed (ringSurface per slices) := by
  obtain ⟨m, rfl⟩ : ∃ m, per = m + 2 := ⟨per - 2, by omega⟩
  rw [closed_iff, em_ring]
  symm
  apply ring_sym
  · intro j
    have h : ((j % slices) * (m + 2) + (m + 1)) % (m + 2) = m + 1 := by
      rw [Nat.mul_add_mod_self_right]
      exact Nat.mod_eq_of_lt (by omega)
    have h0 : ((j % slices) * (m + 2) + 0) % (m + 2) = 0 := by simp
    simp only [wR, vid, identR, h, h0]
    simp
  · intro i
    simp [wR, vid]

theorem single_ringKeep (m : Nat) :
    TV.Creation.single (m + 2) (ringKeep (m + 2))
      = (List.range (m + 1)).flatMap (fun i => [(i, m + 2 + i, i + 1), (i + 1, m + 2 + i, m + 2 + i + 1)]) := by
  unfold TV.Creation.single
  rw [zipIdx_flatMap2, List.filterMap_flatMap, List.range_succ (n := m + 1), List.flatMap_append]
  have hlast : ([m + 1].flatMap fun i =>
      List.filterMap (fun fi : Face × Nat => if ringKeep (m + 2) fi.2 = true then some fi.1 else none)
        [((i, m + 2 + i, (i + 1) % (m + 2)), 2 * i), (((i + 1) % (m + 2), m + 2 + i, m + 2 + (i + 1) % (m + 2)), 2 * i + 1)]) = [] := by
    simp [ringKeep]
  rw [hlast, List.append_nil]
  apply flatMap_congr'
  intro i hi
  have hi' : i < m + 1 := List.mem_range.mp hi
  have hm : (i + 1) % (m + 2) = i + 1 := Nat.mod_eq_of_lt (by omega)
  have k0 : ringKeep (m + 2) (2 * i) = true := by simp [ringKeep]; omega
  have k1 : ringKeep (m + 2) (2 * i + 1) = true := by simp [ringKeep]; omega
  simp only [List.filterMap_cons, List.filterMap_nil, k0, k1, if_true, hm, ← Nat.add_assoc]

/-- the grid of `ring_closed` is what the index arithmetic of `revolve` produces when exactly the two
    triangles of the wrap-around quad are dropped -/
theorem gridR_eq_revolveFaces (per slices : Nat) (hper : 2 ≤ per) :
    gridFacesR per slices = TV.Creation.revolveFaces per slices (per * slices) (ringKeep per) := by
  obtain ⟨m, rfl⟩ : ∃ m, per = m + 2 := ⟨per - 2, by omega⟩
  unfold gridFacesR TV.Creation.revolveFaces
  apply flatMap_congr'
  intro j hj
  have hj' : j < slices := List.mem_range.mp hj
  rw [single_ringKeep, List.map_flatMap]
  unfold sliceFacesR
  show (List.range (m + 1)).flatMap _ = _
  apply flatMap_congr'
  intro i hi
  have hi' : i < m + 1 := List.mem_range.mp hi
  have a1 := shift_mod (m + 2) slices i j hj' (by omega)
  have a2 := shift_mod (m + 2) slices (i + 1) j hj' (by omega)
  have b1 := shift_mod' (m + 2) slices i j hj' (by omega)
  have b2 := shift_mod' (m + 2) slices (i + 1) j hj' (by omega)
  rw [← Nat.add_assoc] at b2
  simp only [List.map_cons, List.map_nil, a1, a2, b1, b2]

/-! ### open loop profile (torus): nothing dropped, nothing merged; the quad of the last profile point returns to the
    first point of the same two sections -/

def torusFaces (per slices : Nat) : List Face := TV.Creation.revolveFaces per slices (per * slices) (fun _ => true)

theorem single_all (per : Nat) :
    TV.Creation.single per (fun _ => true)
      = (List.range per).flatMap (fun i =>
          [(i, per + i, (i + 1) % per), ((i + 1) % per, per + i, per + (i + 1) % per)]) := by
  unfold TV.Creation.single
  simp only [if_true]
  rw [List.filterMap_eq_map', List.zipIdx_map_fst]

/-- vertex of profile point `i` (cyclic) on section `j` (cyclic) -/
def wT (per slices i j : Nat) : Nat := vid per slices (i % per) j

theorem em_torus (per slices : Nat) (hper : 0 < per) :
    em (torusFaces per slices)
      = ∑ j ∈ range slices, ∑ i ∈ range per, (eA (wT per slices) i j + eB (wT per slices) i j) := by
  unfold torusFaces TV.Creation.revolveFaces
  rw [em_flatMap_range, single_all]
  refine sum_congr rfl (fun j hj => ?_)
  have hj' : j < slices := mem_range.mp hj
  rw [List.map_flatMap, em_flatMap_range]
  refine sum_congr rfl (fun i hi => ?_)
  have hi' : i < per := mem_range.mp hi
  have hi1 : (i + 1) % per < per := Nat.mod_lt _ hper
  have a1 := shift_mod per slices i j hj' hi'
  have a2 := shift_mod per slices ((i + 1) % per) j hj' hi1
  have b1 := shift_mod' per slices i j hj' hi'
  have b2 := shift_mod' per slices ((i + 1) % per) j hj' hi1
  have : ∀ a b : Face, [a, b] = [a] ++ [b] := fun _ _ => rfl
  rw [List.map_cons, List.map_cons, List.map_nil, this, em_append, em_single, em_single]
  simp only [a1, a2, b1, b2, eA, eB, wT, Nat.mod_eq_of_lt hi']

/-- **a full turn of an open loop profile (torus) is closed and consistently wound**, for every profile length
    and every number of sections -/
theorem torus_closed (per slices : Nat) (hper : 0 < per) : Closed (torusFaces per slices) := by
  rw [closed_iff, em_torus per slices hper]
  symm
  apply ring_sym
  · intro j
    simp [wT]
  · intro i
    simp [wT, vid]


end TV.RevolveGrid
