import TrimeshVerif.Proofs.Mat3
namespace TV.Mat3

end TV.Mat3
