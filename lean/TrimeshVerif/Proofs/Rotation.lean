/-
Helper lemmas for C19 (rotation / quaternion / Euler representations).

Everything here is about *hand-written* reference definitions (`rotM`, `qM`, `Q`, `UQ`) and the `M3`
algebra of `Proofs/Mat3.lean`; `Props/C19.lean` connects the generated traces to them by relation-free
`ring` identities, so the hard-coded `linear_combination` certificates live here and do not depend on
the shape of the generated code.  All certificates have integer coefficients (valid in every
characteristic).
-/
import TrimeshVerif.Proofs.Mat3
namespace TV.Mat3

variable {K : Type} [Field K]

/-! ### `M3` algebra -/

theorem M3.mul_def (a b : M3 K) : a * b = M3.mul a b := rfl
theorem M3.one_def : (1 : M3 K) = M3.one := rfl

theorem M3.mul_assoc' (a b c : M3 K) : a * b * c = a * (b * c) := by
  apply M3.ext' <;> simp only [M3.mul_def, M3.mul] <;> ring

theorem M3.mul_one' (a : M3 K) : a * 1 = a := by
  apply M3.ext' <;> simp [M3.mul_def, M3.mul, M3.one_def, M3.one]

theorem M3.one_mul' (a : M3 K) : 1 * a = a := by
  apply M3.ext' <;> simp [M3.mul_def, M3.mul, M3.one_def, M3.one]

theorem M3.transpose_mul (a b : M3 K) : (a * b).transpose = b.transpose * a.transpose := by
  apply M3.ext' <;> simp only [M3.mul_def, M3.mul, M3.transpose] <;> ring

theorem M3.det_mul (a b : M3 K) : (a * b).det = a.det * b.det := by
  simp only [M3.mul_def, M3.mul, M3.det]; ring

theorem M3.det_one : (1 : M3 K).det = 1 := by
  simp [M3.one_def, M3.one, M3.det]

theorem M3.isRotation_one : (1 : M3 K).IsRotation := by
  refine ⟨?_, M3.det_one⟩
  apply M3.ext' <;> simp [M3.mul_def, M3.mul, M3.one_def, M3.one, M3.transpose]

/-- products of proper rotations are proper rotations -/
theorem M3.IsRotation.mul {a b : M3 K} (ha : a.IsRotation) (hb : b.IsRotation) : (a * b).IsRotation := by
  obtain ⟨ha1, ha2⟩ := ha
  obtain ⟨hb1, hb2⟩ := hb
  constructor
  · rw [M3.transpose_mul, M3.mul_assoc', ← M3.mul_assoc' b, hb1, M3.one_mul', ha1]
  · rw [M3.det_mul, ha2, hb2, mul_one]

/-! ### elementary rotations -/

theorem Rx_isRotation (c s : K) (h : c ^ 2 + s ^ 2 = 1) : (Rx c s).IsRotation := by
  constructor
  · apply M3.ext' <;> simp [Rx, M3.mul_def, M3.mul, M3.one_def, M3.one, M3.transpose] <;>
      first | ring1 | linear_combination h
  · simp [Rx, M3.det]; linear_combination h

theorem Ry_isRotation (c s : K) (h : c ^ 2 + s ^ 2 = 1) : (Ry c s).IsRotation := by
  constructor
  · apply M3.ext' <;> simp [Ry, M3.mul_def, M3.mul, M3.one_def, M3.one, M3.transpose] <;>
      first | ring1 | linear_combination h
  · simp [Ry, M3.det]; linear_combination h

theorem Rz_isRotation (c s : K) (h : c ^ 2 + s ^ 2 = 1) : (Rz c s).IsRotation := by
  constructor
  · apply M3.ext' <;> simp [Rz, M3.mul_def, M3.mul, M3.one_def, M3.one, M3.transpose] <;>
      first | ring1 | linear_combination h
  · simp [Rz, M3.det]; linear_combination h

/-! ### axis-angle (Rodrigues form) -/

/-- `c·I + s·[u]ₓ + (1-c)·u uᵀ` -/
def rotM (c s u1 u2 u3 : K) : M3 K :=
  ⟨c + (1 - c) * u1 ^ 2, (1 - c) * u1 * u2 - s * u3, (1 - c) * u1 * u3 + s * u2,
   (1 - c) * u1 * u2 + s * u3, c + (1 - c) * u2 ^ 2, (1 - c) * u2 * u3 - s * u1,
   (1 - c) * u1 * u3 - s * u2, (1 - c) * u2 * u3 + s * u1, c + (1 - c) * u3 ^ 2⟩

theorem rotM_isRotation (c s u1 u2 u3 : K) (hcs : c ^ 2 + s ^ 2 = 1)
    (hu : u1 ^ 2 + u2 ^ 2 + u3 ^ 2 = 1) : (rotM c s u1 u2 u3).IsRotation := by
  constructor
  · apply M3.ext' <;> simp only [rotM, M3.mul_def, M3.mul, M3.one_def, M3.one, M3.transpose]
    · linear_combination (u1^4 + u1^2*u2^2 + u1^2*u3^2 - 2*u1^2 + 1) * hcs + (-2*c*u1^2 - s^2*u1^2 + s^2 + 2*u1^2) * hu
    · linear_combination (u1^3*u2 + u1*u2^3 + u1*u2*u3^2 - 2*u1*u2) * hcs + (-2*c*u1*u2 - s^2*u1*u2 + 2*u1*u2) * hu
    · linear_combination (u1^3*u3 + u1*u2^2*u3 + u1*u3^3 - 2*u1*u3) * hcs + (-2*c*u1*u3 - s^2*u1*u3 + 2*u1*u3) * hu
    · linear_combination (u1^3*u2 + u1*u2^3 + u1*u2*u3^2 - 2*u1*u2) * hcs + (-2*c*u1*u2 - s^2*u1*u2 + 2*u1*u2) * hu
    · linear_combination (u1^2*u2^2 + u2^4 + u2^2*u3^2 - 2*u2^2 + 1) * hcs + (-2*c*u2^2 - s^2*u2^2 + s^2 + 2*u2^2) * hu
    · linear_combination (u1^2*u2*u3 + u2^3*u3 + u2*u3^3 - 2*u2*u3) * hcs + (-2*c*u2*u3 - s^2*u2*u3 + 2*u2*u3) * hu
    · linear_combination (u1^3*u3 + u1*u2^2*u3 + u1*u3^3 - 2*u1*u3) * hcs + (-2*c*u1*u3 - s^2*u1*u3 + 2*u1*u3) * hu
    · linear_combination (u1^2*u2*u3 + u2^3*u3 + u2*u3^3 - 2*u2*u3) * hcs + (-2*c*u2*u3 - s^2*u2*u3 + 2*u2*u3) * hu
    · linear_combination (u1^2*u3^2 + u2^2*u3^2 + u3^4 - 2*u3^2 + 1) * hcs + (-2*c*u3^2 - s^2*u3^2 + s^2 + 2*u3^2) * hu
  · simp only [rotM, M3.det]
    linear_combination (-c*u1^2 - c*u2^2 - c*u3^2 + c + u1^2 + u2^2 + u3^2) * hcs + (-c*s^2*u1^2 - c*s^2*u2^2 - c*s^2*u3^2 + c*s^2 - c + s^2*u1^2 + s^2*u2^2 + s^2*u3^2 + 1) * hu

theorem rotM_apply_axis (c s u1 u2 u3 : K) (hu : u1 ^ 2 + u2 ^ 2 + u3 ^ 2 = 1) :
    (rotM c s u1 u2 u3).apply (u1, u2, u3) = (u1, u2, u3) := by
  simp only [rotM, M3.apply, Prod.mk.injEq]
  refine ⟨?_, ?_, ?_⟩
  · linear_combination (-c*u1 + u1) * hu
  · linear_combination (-c*u2 + u2) * hu
  · linear_combination (-c*u3 + u3) * hu

/-! ### quaternions -/

/-- matrix of the quaternion `(w, x, y, z)`; `t` is the squared normalisation factor `2 / |q|²` -/
def qM (t w x y z : K) : M3 K :=
  ⟨1 - t * (y ^ 2 + z ^ 2), t * (x * y - w * z), t * (x * z + w * y),
   t * (x * y + w * z), 1 - t * (x ^ 2 + z ^ 2), t * (y * z - w * x),
   t * (x * z - w * y), t * (y * z + w * x), 1 - t * (x ^ 2 + y ^ 2)⟩

theorem qM_isRotation (t w x y z : K) (ht : t * (w ^ 2 + x ^ 2 + y ^ 2 + z ^ 2) = 2) :
    (qM t w x y z).IsRotation := by
  constructor
  · apply M3.ext' <;> simp only [qM, M3.mul_def, M3.mul, M3.one_def, M3.one, M3.transpose]
    · linear_combination (t*y^2 + t*z^2) * ht
    · linear_combination (-t*x*y) * ht
    · linear_combination (-t*x*z) * ht
    · linear_combination (-t*x*y) * ht
    · linear_combination (t*x^2 + t*z^2) * ht
    · linear_combination (-t*y*z) * ht
    · linear_combination (-t*x*z) * ht
    · linear_combination (-t*y*z) * ht
    · linear_combination (t*x^2 + t*y^2) * ht
  · simp only [qM, M3.det]
    linear_combination (t*x^2 + t*y^2 + t*z^2) * ht

theorem qM_neg (t w x y z : K) : qM t (-w) (-x) (-y) (-z) = qM t w x y z := by
  apply M3.ext' <;> simp only [qM] <;> ring

/-- the half-angle quaternion of an axis-angle pair -/
theorem qM_axis_angle (ch sh u1 u2 u3 : K) (hcs : ch ^ 2 + sh ^ 2 = 1)
    (hu : u1 ^ 2 + u2 ^ 2 + u3 ^ 2 = 1) :
    qM 2 ch (u1 * sh) (u2 * sh) (u3 * sh) = rotM (ch ^ 2 - sh ^ 2) (2 * sh * ch) u1 u2 u3 := by
  apply M3.ext' <;> simp only [qM, rotM]
  · linear_combination (u1^2 - 1) * hcs + (-2*sh^2) * hu
  · linear_combination (u1*u2) * hcs
  · linear_combination (u1*u3) * hcs
  · linear_combination (u1*u2) * hcs
  · linear_combination (u2^2 - 1) * hcs + (-2*sh^2) * hu
  · linear_combination (u2*u3) * hcs
  · linear_combination (u1*u3) * hcs
  · linear_combination (u2*u3) * hcs
  · linear_combination (u3^2 - 1) * hcs + (-2*sh^2) * hu

/-- quaternions as plain 4-tuples -/
structure Q (K : Type) where
  w : K
  x : K
  y : K
  z : K

/-- Hamilton product -/
def Q.mul (p q : Q K) : Q K :=
  ⟨p.w * q.w - p.x * q.x - p.y * q.y - p.z * q.z,
   p.w * q.x + p.x * q.w + p.y * q.z - p.z * q.y,
   p.w * q.y - p.x * q.z + p.y * q.w + p.z * q.x,
   p.w * q.z + p.x * q.y - p.y * q.x + p.z * q.w⟩

def Q.normSq (q : Q K) : K := q.w ^ 2 + q.x ^ 2 + q.y ^ 2 + q.z ^ 2

/-- rotation matrix of a *unit* quaternion -/
def Q.rot (q : Q K) : M3 K := qM 2 q.w q.x q.y q.z

theorem Q.normSq_mul (p q : Q K) : (p.mul q).normSq = p.normSq * q.normSq := by
  simp only [Q.mul, Q.normSq]; ring

/-- division-free multiplicativity (unit quaternions; holds in every characteristic) -/
theorem Q.rot_mul (p q : Q K) (hp : p.normSq = 1) (hq : q.normSq = 1) :
    (p.mul q).rot = p.rot * q.rot := by
  obtain ⟨pw, px, py, pz⟩ := p
  obtain ⟨qw, qx, qy, qz⟩ := q
  simp only [Q.normSq] at hp hq
  apply M3.ext' <;> simp only [Q.rot, Q.mul, qM, M3.mul_def, M3.mul]
  · linear_combination (-2*qy^2 - 2*qz^2) * hp + (-2*py^2 - 2*pz^2) * hq
  · linear_combination (-2*qw*qz + 2*qx*qy) * hp + (-2*pw*pz + 2*px*py) * hq
  · linear_combination (2*qw*qy + 2*qx*qz) * hp + (2*pw*py + 2*px*pz) * hq
  · linear_combination (2*qw*qz + 2*qx*qy) * hp + (2*pw*pz + 2*px*py) * hq
  · linear_combination (-2*qx^2 - 2*qz^2) * hp + (-2*px^2 - 2*pz^2) * hq
  · linear_combination (-2*qw*qx + 2*qy*qz) * hp + (-2*pw*px + 2*py*pz) * hq
  · linear_combination (-2*qw*qy + 2*qx*qz) * hp + (-2*pw*py + 2*px*pz) * hq
  · linear_combination (2*qw*qx + 2*qy*qz) * hp + (2*pw*px + 2*py*pz) * hq
  · linear_combination (-2*qx^2 - 2*qy^2) * hp + (-2*px^2 - 2*py^2) * hq

/-- multiplicativity for arbitrary non-zero quaternions.  NOTE the hypothesis `2 ≠ 0`: in
    characteristic 2 the relation `t * |q|² = 2` degenerates to `t * |q|² = 0` and the statement is
    false (see the report on `C19_quaternion_multiply`). -/
theorem qM_mul (h2 : (2 : K) ≠ 0) (t1 w1 x1 y1 z1 t0 w0 x0 y0 z0 : K)
    (h1 : t1 * (w1 ^ 2 + x1 ^ 2 + y1 ^ 2 + z1 ^ 2) = 2) (h0 : t0 * (w0 ^ 2 + x0 ^ 2 + y0 ^ 2 + z0 ^ 2) = 2) :
    qM (t1 * t0 / 2) (Q.mul ⟨w1, x1, y1, z1⟩ ⟨w0, x0, y0, z0⟩).w (Q.mul ⟨w1, x1, y1, z1⟩ ⟨w0, x0, y0, z0⟩).x
        (Q.mul ⟨w1, x1, y1, z1⟩ ⟨w0, x0, y0, z0⟩).y (Q.mul ⟨w1, x1, y1, z1⟩ ⟨w0, x0, y0, z0⟩).z
      = qM t1 w1 x1 y1 z1 * qM t0 w0 x0 y0 z0 := by
  have ht : 2 * (t1 * t0 / 2) = t1 * t0 := by field_simp
  generalize t1 * t0 / 2 = t at ht
  apply M3.ext' <;> simp only [Q.mul, qM, M3.mul_def, M3.mul] <;> apply mul_left_cancel₀ h2
  · linear_combination (-((w1*y0 - x1*z0 + y1*w0 + z1*x0)^2 + (w1*z0 + x1*y0 - y1*x0 + z1*w0)^2)) * ht + (-y0^2*t0 - z0^2*t0) * h1 + (-y1^2*t1 - z1^2*t1) * h0
  · linear_combination ((w1*x0 + x1*w0 + y1*z0 - z1*y0) * (w1*y0 - x1*z0 + y1*w0 + z1*x0) - (w1*w0 - x1*x0 - y1*y0 - z1*z0) * (w1*z0 + x1*y0 - y1*x0 + z1*w0)) * ht + (-w0*z0*t0 + x0*y0*t0) * h1 + (-w1*z1*t1 + x1*y1*t1) * h0
  · linear_combination ((w1*x0 + x1*w0 + y1*z0 - z1*y0) * (w1*z0 + x1*y0 - y1*x0 + z1*w0) + (w1*w0 - x1*x0 - y1*y0 - z1*z0) * (w1*y0 - x1*z0 + y1*w0 + z1*x0)) * ht + (w0*y0*t0 + x0*z0*t0) * h1 + (w1*y1*t1 + x1*z1*t1) * h0
  · linear_combination ((w1*x0 + x1*w0 + y1*z0 - z1*y0) * (w1*y0 - x1*z0 + y1*w0 + z1*x0) + (w1*w0 - x1*x0 - y1*y0 - z1*z0) * (w1*z0 + x1*y0 - y1*x0 + z1*w0)) * ht + (w0*z0*t0 + x0*y0*t0) * h1 + (w1*z1*t1 + x1*y1*t1) * h0
  · linear_combination (-((w1*x0 + x1*w0 + y1*z0 - z1*y0)^2 + (w1*z0 + x1*y0 - y1*x0 + z1*w0)^2)) * ht + (-x0^2*t0 - z0^2*t0) * h1 + (-x1^2*t1 - z1^2*t1) * h0
  · linear_combination ((w1*y0 - x1*z0 + y1*w0 + z1*x0) * (w1*z0 + x1*y0 - y1*x0 + z1*w0) - (w1*w0 - x1*x0 - y1*y0 - z1*z0) * (w1*x0 + x1*w0 + y1*z0 - z1*y0)) * ht + (-w0*x0*t0 + y0*z0*t0) * h1 + (-w1*x1*t1 + y1*z1*t1) * h0
  · linear_combination ((w1*x0 + x1*w0 + y1*z0 - z1*y0) * (w1*z0 + x1*y0 - y1*x0 + z1*w0) - (w1*w0 - x1*x0 - y1*y0 - z1*z0) * (w1*y0 - x1*z0 + y1*w0 + z1*x0)) * ht + (-w0*y0*t0 + x0*z0*t0) * h1 + (-w1*y1*t1 + x1*z1*t1) * h0
  · linear_combination ((w1*y0 - x1*z0 + y1*w0 + z1*x0) * (w1*z0 + x1*y0 - y1*x0 + z1*w0) + (w1*w0 - x1*x0 - y1*y0 - z1*z0) * (w1*x0 + x1*w0 + y1*z0 - z1*y0)) * ht + (w0*x0*t0 + y0*z0*t0) * h1 + (w1*x1*t1 + y1*z1*t1) * h0
  · linear_combination (-((w1*x0 + x1*w0 + y1*z0 - z1*y0)^2 + (w1*y0 - x1*z0 + y1*w0 + z1*x0)^2)) * ht + (-x0^2*t0 - y0^2*t0) * h1 + (-x1^2*t1 - y1^2*t1) * h0

/-! ### unit quaternions as a subtype: unconditional multiplicativity -/

/-- unit quaternions -/
def UQ (K : Type) [Field K] := {q : Q K // q.normSq = 1}

instance : Mul (UQ K) := ⟨fun p q => ⟨p.1.mul q.1, by rw [Q.normSq_mul, p.2, q.2, mul_one]⟩⟩

def UQ.rot (q : UQ K) : M3 K := q.1.rot

theorem UQ.mul_val (p q : UQ K) : (p * q).1 = p.1.mul q.1 := rfl

theorem UQ.rot_mul (p q : UQ K) : (p * q).rot = p.rot * q.rot := Q.rot_mul p.1 q.1 p.2 q.2

theorem UQ.rot_isRotation (q : UQ K) : q.rot.IsRotation := by
  have h := q.2
  simp only [Q.normSq] at h
  exact qM_isRotation 2 _ _ _ _ (by linear_combination 2 * h)

/-- elementary half-angle quaternions about the coordinate axes -/
def UQ.ex (ch sh : K) (h : ch ^ 2 + sh ^ 2 = 1) : UQ K :=
  ⟨⟨ch, sh, 0, 0⟩, by simp only [Q.normSq]; linear_combination h⟩
def UQ.ey (ch sh : K) (h : ch ^ 2 + sh ^ 2 = 1) : UQ K :=
  ⟨⟨ch, 0, sh, 0⟩, by simp only [Q.normSq]; linear_combination h⟩
def UQ.ez (ch sh : K) (h : ch ^ 2 + sh ^ 2 = 1) : UQ K :=
  ⟨⟨ch, 0, 0, sh⟩, by simp only [Q.normSq]; linear_combination h⟩

theorem UQ.ex_val (ch sh : K) (h : ch ^ 2 + sh ^ 2 = 1) : (UQ.ex ch sh h).1 = ⟨ch, sh, 0, 0⟩ := rfl
theorem UQ.ey_val (ch sh : K) (h : ch ^ 2 + sh ^ 2 = 1) : (UQ.ey ch sh h).1 = ⟨ch, 0, sh, 0⟩ := rfl
theorem UQ.ez_val (ch sh : K) (h : ch ^ 2 + sh ^ 2 = 1) : (UQ.ez ch sh h).1 = ⟨ch, 0, 0, sh⟩ := rfl

theorem UQ.rot_ex {ch sh : K} (h : ch ^ 2 + sh ^ 2 = 1) :
    (UQ.ex ch sh h).rot = Rx (ch ^ 2 - sh ^ 2) (2 * sh * ch) := by
  apply M3.ext' <;> simp only [UQ.rot, UQ.ex, Q.rot, qM, Rx] <;> first | ring1 | linear_combination (-1 : K) * h

theorem UQ.rot_ey {ch sh : K} (h : ch ^ 2 + sh ^ 2 = 1) :
    (UQ.ey ch sh h).rot = Ry (ch ^ 2 - sh ^ 2) (2 * sh * ch) := by
  apply M3.ext' <;> simp only [UQ.rot, UQ.ey, Q.rot, qM, Ry] <;> first | ring1 | linear_combination (-1 : K) * h

theorem UQ.rot_ez {ch sh : K} (h : ch ^ 2 + sh ^ 2 = 1) :
    (UQ.ez ch sh h).rot = Rz (ch ^ 2 - sh ^ 2) (2 * sh * ch) := by
  apply M3.ext' <;> simp only [UQ.rot, UQ.ez, Q.rot, qM, Rz] <;> first | ring1 | linear_combination (-1 : K) * h

end TV.Mat3
