import TrimeshVerif.Model.RunLength
/-
Helper lemmas for C13 (run-length codecs).  Core Lean only.
-/
namespace TV.RunLength

/-! ### parity helper -/

/-- parity of a position: `true` for odd -/
def par (n : Nat) : Bool := n % 2 == 1

@[simp] theorem par_zero : par 0 = false := rfl

@[simp] theorem par_succ (n : Nat) : par (n + 1) = !par n := by
  unfold par
  rcases Nat.mod_two_eq_zero_or_one n with h | h
  · have : (n + 1) % 2 = 1 := by omega
    simp [h, this]
  · have : (n + 1) % 2 = 0 := by omega
    simp [h, this]

theorem par_def (n : Nat) : (n % 2 == 1) = par n := rfl

/-! ### rleToDense basics -/

section rle
variable {α : Type}

@[simp] theorem rleToDense_nil : rleToDense ([] : List (α × Nat)) = [] := rfl

@[simp] theorem rleToDense_cons (v : α) (c : Nat) (t : List (α × Nat)) :
    rleToDense ((v, c) :: t) = List.replicate c v ++ rleToDense t := rfl

theorem rleToDense_cons' (r : α × Nat) (t : List (α × Nat)) :
    rleToDense (r :: t) = List.replicate r.2 r.1 ++ rleToDense t := rfl

theorem rleToDense_append (a b : List (α × Nat)) :
    rleToDense (a ++ b) = rleToDense a ++ rleToDense b := by
  induction a with
  | nil => rfl
  | cons r t ih => simp [rleToDense_cons', ih]

theorem rleToDense_replicate (k m : Nat) (v : α) :
    rleToDense (List.replicate k (v, m)) = List.replicate (k * m) v := by
  induction k with
  | zero => simp
  | succ k ih =>
    rw [List.replicate_succ, rleToDense_cons, ih, List.replicate_append_replicate]
    congr 1
    rw [Nat.succ_mul]; omega

theorem rleToDense_flatMap (f : α × Nat → List (α × Nat)) (rs : List (α × Nat))
    (h : ∀ r, rleToDense (f r) = List.replicate r.2 r.1) :
    rleToDense (rs.flatMap f) = rleToDense rs := by
  induction rs with
  | nil => rfl
  | cons r t ih => simp [rleToDense_append, h, ih, rleToDense_cons']

theorem rleToDense_head (v : α) (c : Nat) (t : List (α × Nat)) (hc : 0 < c) :
    (rleToDense ((v, c) :: t)).head? = some v := by
  cases c with
  | zero => omega
  | succ c => simp [List.replicate_succ]

theorem rleToDense_getLast (v : α) (c : Nat) (t : List (α × Nat)) (hc : 0 < c) :
    (rleToDense (t ++ [(v, c)])).getLast? = some v := by
  cases c with
  | zero => omega
  | succ c => simp [rleToDense_append, List.replicate_succ']

/-! ### runsOf -/

theorem runsOf_dense [DecidableEq α] (d : List α) : rleToDense (runsOf d) = d := by
  induction d with
  | nil => rfl
  | cons x xs ih =>
    unfold runsOf
    split
    · rename_i v c t heq
      rw [heq] at ih
      split
      · rename_i hv
        subst hv
        rw [← ih]
        simp [List.replicate_succ]
      · rw [← ih]
        simp
    · rename_i heq
      rw [heq] at ih
      simp [← ih]

theorem runsOf_eq_nil [DecidableEq α] (d : List α) (h : runsOf d = []) : d = [] := by
  have := runsOf_dense d
  rw [h] at this
  exact this.symm

theorem runsOf_head [DecidableEq α] (d : List α) :
    (runsOf d).head?.map (·.1) = d.head? := by
  cases d with
  | nil => rfl
  | cons x xs =>
    unfold runsOf
    split
    · split
      · rename_i hv; simp [hv]
      · simp
    · simp

/-! ### splitLongRle -/

theorem splitLongRle_dense (m : Nat) (rs : List (α × Nat)) :
    rleToDense (splitLongRle m rs) = rleToDense rs := by
  unfold splitLongRle
  split
  · apply rleToDense_flatMap
    intro r
    rw [rleToDense_append, rleToDense_replicate]
    simp only [rleToDense_cons, rleToDense_nil, List.append_nil, List.replicate_append_replicate]
    congr 1
    rw [Nat.mul_comm]
    exact Nat.div_add_mod r.2 m
  · rfl

theorem splitLongRle_fit (m : Nat) (hm : 1 ≤ m) (rs : List (α × Nat)) :
    ∀ r ∈ splitLongRle m rs, r.2 ≤ m := by
  unfold splitLongRle
  split
  · intro r hr
    simp only [List.mem_flatMap, List.mem_append, List.mem_replicate, List.mem_singleton] at hr
    obtain ⟨q, _, hq⟩ := hr
    rcases hq with ⟨_, rfl⟩ | rfl
    · exact Nat.le_refl _
    · exact Nat.le_of_lt (Nat.mod_lt _ hm)
  · rename_i hany
    intro r hr
    simp only [List.any_eq_true, bne_iff_ne, ne_eq, not_exists, not_and, Decidable.not_not] at hany
    have := hany r hr
    have h2 : r.2 < m := (Nat.div_eq_zero_iff_lt hm).1 this
    omega

/-! ### mergeRle -/

theorem mergeRle_dense [DecidableEq α] (rs : List (α × Nat)) :
    rleToDense (mergeRle rs) = rleToDense rs := by
  induction rs with
  | nil => rfl
  | cons r t ih =>
    obtain ⟨v, c⟩ := r
    unfold mergeRle
    split
    · rename_i hc
      subst hc
      simp [ih]
    · split
      · rename_i v' c' t' heq
        rw [heq] at ih
        split
        · rename_i hv
          subst hv
          rw [rleToDense_cons, rleToDense_cons, ← ih, rleToDense_cons, ← List.append_assoc,
            List.replicate_append_replicate]
        · rw [rleToDense_cons, rleToDense_cons (t := t), ← ih]
      · rename_i heq
        rw [heq] at ih
        rw [rleToDense_cons, rleToDense_cons, ← ih]

end rle

/-! ### brleToDenseFrom basics -/

@[simp] theorem brleFrom_nil (b : Bool) : brleToDenseFrom b [] = [] := rfl

@[simp] theorem brleFrom_cons (b : Bool) (c : Nat) (t : List Nat) :
    brleToDenseFrom b (c :: t) = List.replicate c b ++ brleToDenseFrom (!b) t := rfl

theorem brleFrom_append (b : Bool) (xs ys : List Nat) :
    brleToDenseFrom b (xs ++ ys) =
      brleToDenseFrom b xs ++ brleToDenseFrom (b ^^ par xs.length) ys := by
  induction xs generalizing b with
  | nil => simp
  | cons c t ih =>
    simp only [List.cons_append, brleFrom_cons, ih, List.length_cons, par_succ, List.append_assoc]
    cases b <;> cases par t.length <;> rfl

theorem brleFrom_snoc (b : Bool) (xs : List Nat) (c : Nat) :
    brleToDenseFrom b (xs ++ [c]) =
      brleToDenseFrom b xs ++ List.replicate c (b ^^ par xs.length) := by
  rw [brleFrom_append]; simp

theorem brleFrom_snoc_zero (b : Bool) (xs : List Nat) :
    brleToDenseFrom b (xs ++ [0]) = brleToDenseFrom b xs := by
  rw [brleFrom_snoc]; simp

theorem brleFrom_map_not (b : Bool) (xs : List Nat) :
    (brleToDenseFrom b xs).map (!·) = brleToDenseFrom (!b) xs := by
  induction xs generalizing b with
  | nil => rfl
  | cons c t ih => simp [ih]

theorem brleFrom_length (b : Bool) (xs : List Nat) :
    (brleToDenseFrom b xs).length = xs.sum := by
  induction xs generalizing b with
  | nil => rfl
  | cons c t ih => simp [ih]

theorem brleFrom_reverse (b : Bool) (ls : List Nat) :
    (brleToDenseFrom b ls).reverse = brleToDenseFrom (b ^^ par ls.length ^^ true) ls.reverse := by
  induction ls generalizing b with
  | nil => rfl
  | cons c t ih =>
    simp only [brleFrom_cons, List.reverse_append, List.reverse_replicate, ih, List.reverse_cons,
      brleFrom_snoc, List.length_cons, par_succ, List.length_reverse]
    cases b <;> cases par t.length <;> rfl

/-! ### runs of a boolean sequence alternate -/

theorem runsOf_brle (d : List Bool) (b : Bool) (h : d.head? = some b ∨ d = []) :
    brleToDenseFrom b ((runsOf d).map (·.2)) = d := by
  induction d generalizing b with
  | nil => rfl
  | cons x xs ih =>
    have hb : x = b := by simpa using h
    subst hb
    have hh := runsOf_head xs
    unfold runsOf
    split
    · rename_i v c t heq
      rw [heq] at hh ih
      have hv : xs.head? = some v := by simpa using hh.symm
      have ihv := ih v (Or.inl hv)
      simp only [List.map_cons, brleFrom_cons] at ihv
      split
      · rename_i hvx
        subst hvx
        simp only [List.map_cons, brleFrom_cons, List.replicate_succ, List.cons_append]
        rw [ihv]
      · rename_i hvx
        have : v = !x := by cases v <;> cases x <;> simp_all
        subst this
        simp only [List.map_cons, brleFrom_cons, List.replicate_one, List.singleton_append]
        rw [ihv]
    · rename_i heq
      have := runsOf_eq_nil xs heq
      subst this
      simp

/-! ### splitLongBrle -/

theorem brleFrom_chunks (b : Bool) (k m r : Nat) (rest : List Nat) :
    brleToDenseFrom b ((List.replicate k [m, 0]).flatten ++ [r] ++ rest) =
      List.replicate (k * m + r) b ++ brleToDenseFrom (!b) rest := by
  induction k with
  | zero => simp
  | succ k ih =>
    simp only [List.replicate_succ, List.flatten_cons, List.cons_append, List.nil_append,
      brleFrom_cons, Bool.not_not, List.replicate_zero, List.append_assoc] at ih ⊢
    rw [ih, ← List.append_assoc, List.replicate_append_replicate]
    congr 2
    rw [Nat.succ_mul]; omega

theorem brleFrom_flatMap (b : Bool) (m : Nat) (ls : List Nat) :
    brleToDenseFrom b
      (ls.flatMap (fun l => (List.replicate (l / m) [m, 0]).flatten ++ [l % m])) =
      brleToDenseFrom b ls := by
  induction ls generalizing b with
  | nil => rfl
  | cons l t ih =>
    rw [List.flatMap_cons, brleFrom_chunks, brleFrom_cons, ih]
    congr 2
    rw [Nat.mul_comm]
    exact Nat.div_add_mod l m

theorem splitLongBrle_dense (b : Bool) (m : Nat) (ls : List Nat) :
    brleToDenseFrom b (splitLongBrle m ls) = brleToDenseFrom b ls := by
  unfold splitLongBrle
  split
  · exact brleFrom_flatMap b m ls
  · rfl

theorem splitLongBrle_fit (m : Nat) (hm : 1 ≤ m) (ls : List Nat) :
    ∀ c ∈ splitLongBrle m ls, c ≤ m := by
  unfold splitLongBrle
  split
  · intro c hc
    simp only [List.mem_flatMap, List.mem_append, List.mem_flatten, List.mem_replicate,
      List.mem_singleton] at hc
    obtain ⟨l, _, hl⟩ := hc
    rcases hl with ⟨x, ⟨_, rfl⟩, hx⟩ | rfl
    · simp at hx
      rcases hx with rfl | rfl <;> omega
    · exact Nat.le_of_lt (Nat.mod_lt _ hm)
  · rename_i hany
    intro c hc
    simp only [List.any_eq_true, decide_eq_true_eq, not_exists, not_and, Nat.not_lt] at hany
    exact hany c hc

/-! ### mergeBrle -/

theorem mergeBrleAux_dense (t : List Nat) (o : Nat) (os : List Nat) (acc : Bool) :
    brleToDenseFrom false (mergeBrleAux (o :: os) acc t) =
      brleToDenseFrom false (o :: os).reverse ++
        brleToDenseFrom (par (os.length + 1) ^^ acc) t := by
  induction t generalizing o os acc with
  | nil => simp [mergeBrleAux]
  | cons l t ih =>
    cases acc with
    | true =>
      simp only [mergeBrleAux]
      rw [ih]
      simp only [List.reverse_cons, brleFrom_snoc, List.length_reverse, par_succ,
        Bool.false_bne, brleFrom_cons, Bool.bne_false, Bool.bne_true, Bool.not_not,
        List.append_assoc, ← List.replicate_append_replicate]
    | false =>
      simp only [mergeBrleAux]
      split
      · rename_i hl
        subst hl
        rw [ih]
        simp
      · rw [ih]
        simp only [List.reverse_cons]
        rw [brleFrom_snoc (xs := os.reverse ++ [o])]
        simp [brleFrom_snoc]

theorem mergeBrle_dense (ls : List Nat) :
    brleToDense (mergeBrle ls) = brleToDense ls := by
  cases ls with
  | nil => rfl
  | cons l t =>
    unfold mergeBrle brleToDense
    rw [mergeBrleAux_dense]
    simp

/-! ### brleToRle -/

theorem rle_zip_range' (ls : List Nat) (s : Nat) :
    rleToDense (((List.range' s ls.length).map (fun i => par i)).zip ls) =
      brleToDenseFrom (par s) ls := by
  induction ls generalizing s with
  | nil => simp
  | cons c t ih =>
    simp only [List.length_cons, List.range'_succ, List.map_cons, List.zip_cons_cons,
      rleToDense_cons, brleFrom_cons, ih, par_succ]

theorem brleToRle_dense (m : Nat) (ls : List Nat) :
    rleToDense (brleToRle m ls) = brleToDense ls := by
  unfold brleToRle rleToRle
  simp only [splitLongRle_dense, mergeRle_dense, List.range_eq_range', par_def, rle_zip_range',
    par_zero]
  unfold brleToDense
  split
  · exact brleFrom_snoc_zero _ _
  · rfl

/-! ### rleToBrle -/

theorem rleToBrleAux_spec (rs : List (Int × Nat)) (o : Nat) (os : List Nat) (cur : Int)
    (h : ∀ r ∈ rs, r.1 = 0 ∨ r.1 = 1) (hcur : cur = 0 ∨ cur = 1)
    (hpar : (cur != 0) = par os.length) :
    ∃ res, rleToBrleAux (o :: os) cur rs = some res ∧
      brleToDenseFrom false res =
        brleToDenseFrom false (o :: os).reverse ++ (rleToDense rs).map (fun v => v != 0) := by
  induction rs generalizing o os cur with
  | nil => exact ⟨_, rfl, by simp⟩
  | cons r t ih =>
    obtain ⟨v, c⟩ := r
    have hv : v = 0 ∨ v = 1 := h (v, c) (List.mem_cons_self)
    have ht : ∀ r ∈ t, r.1 = 0 ∨ r.1 = 1 := fun r hr => h r (List.mem_cons_of_mem _ hr)
    have hnot : ((v != 0 && v != 1) = true) ↔ False := by
      rcases hv with rfl | rfl <;> simp
    unfold rleToBrleAux
    rw [if_neg (by rw [hnot]; exact id)]
    split
    · rename_i hvc
      subst hvc
      obtain ⟨res, h1, h2⟩ := ih (o + c) os v ht hcur hpar
      refine ⟨res, h1, ?_⟩
      rw [h2]
      simp only [List.reverse_cons, brleFrom_snoc, List.length_reverse, Bool.false_bne,
        rleToDense_cons, List.map_append, List.map_replicate, hpar, List.append_assoc,
        ← List.replicate_append_replicate]
    · rename_i hvc
      have hpar' : (v != 0) = par (o :: os).length := by
        rw [List.length_cons, par_succ, ← hpar]
        rcases hv with rfl | rfl <;> rcases hcur with rfl | rfl <;> simp_all
      obtain ⟨res, h1, h2⟩ := ih c (o :: os) v ht hv hpar'
      refine ⟨res, h1, ?_⟩
      rw [h2]
      rw [List.reverse_cons (a := c), brleFrom_snoc]
      simp only [List.length_reverse, Bool.false_bne, rleToDense_cons, List.map_append,
        List.map_replicate, hpar', List.append_assoc]

theorem rleToBrle_spec (rs : List (Int × Nat)) (h : ∀ r ∈ rs, r.1 = 0 ∨ r.1 = 1) :
    ∃ ls, rleToBrle rs = some ls ∧
      brleToDense ls = (rleToDense rs).map (fun v => v != 0) := by
  obtain ⟨res, h1, h2⟩ := rleToBrleAux_spec rs 0 [] 0 h (Or.inl rfl) rfl
  unfold rleToBrle
  rw [h1]
  refine ⟨_, rfl, ?_⟩
  unfold brleToDense
  dsimp only
  split
  · rw [brleFrom_snoc_zero, h2]; simp
  · rw [h2]; simp

/-! ### logical not -/

theorem brleLogicalNot_dense (ls : List Nat) (h : ls ≠ []) :
    brleToDense (brleLogicalNot ls) = (brleToDense ls).map (!·) := by
  unfold brleLogicalNot brleToDense
  rw [brleFrom_map_not]
  split
  · rw [brleFrom_snoc_zero]
    simp
  · rename_i hc
    simp only [bne_iff_ne, ne_eq, Bool.or_eq_true, not_or, Decidable.not_not] at hc
    obtain ⟨h1, h2⟩ := hc
    cases ls with
    | nil => exact absurd rfl h
    | cons a t =>
      have ha : a = 0 := by simpa using h1
      subst ha
      rcases List.eq_nil_or_concat t with rfl | ⟨mid, b, rfl⟩
      · rfl
      · rw [List.concat_eq_append] at h2 ⊢
        have hb : b = 0 := by
          rw [← List.cons_append, List.getLast?_append] at h2
          simpa using h2
        subst hb
        simp [brleFrom_snoc_zero]

/-! ### reverse -/

theorem rleReverse_dense {α : Type} (rs : List (α × Nat)) :
    rleToDense (rleReverse rs) = (rleToDense rs).reverse := by
  unfold rleReverse
  induction rs with
  | nil => rfl
  | cons r t ih =>
    simp [rleToDense_append, rleToDense_cons', ih]

theorem brleReverse_dense (ls : List Nat) :
    brleToDense (brleReverse ls) = (brleToDense ls).reverse := by
  unfold brleReverse brleToDense
  split
  · rename_i hp
    have hpar : par ls.length = false := by simp [par, hp]
    rw [← brleFrom_snoc_zero false ls, brleFrom_reverse]
    simp [hpar]
  · rename_i hp
    have : ls.length % 2 = 1 := by omega
    have hpar : par ls.length = true := by simp [par, this]
    rw [brleFrom_reverse]
    simp [hpar]

/-! ### gather -/

theorem rleAt_eq {α : Type} (rs : List (α × Nat)) (i : Nat) :
    rleAt rs i = (rleToDense rs)[i]? := by
  induction rs generalizing i with
  | nil => simp [rleAt]
  | cons r t ih =>
    obtain ⟨v, c⟩ := r
    simp only [rleAt, rleToDense_cons, List.getElem?_append, List.length_replicate,
      List.getElem?_replicate, ih]
    split <;> rfl

theorem brleAtFrom_eq (b : Bool) (ls : List Nat) (i : Nat) :
    brleAtFrom b ls i = (brleToDenseFrom b ls)[i]? := by
  induction ls generalizing b i with
  | nil => simp [brleAtFrom]
  | cons c t ih =>
    simp only [brleAtFrom, brleFrom_cons, List.getElem?_append, List.length_replicate,
      List.getElem?_replicate, ih]
    split <;> rfl

/-! ### mask -/

theorem zip_replicate_mask {α : Type} (c : Nat) (v : α) (rest : List α) (mask : List Bool) :
    ((List.replicate c v ++ rest).zip mask).filterMap (fun p => if p.2 then some p.1 else none) =
      ((mask.take c).filter id).map (fun _ => v) ++
        (rest.zip (mask.drop c)).filterMap (fun p => if p.2 then some p.1 else none) := by
  induction c generalizing mask with
  | zero => simp
  | succ c ih =>
    cases mask with
    | nil => simp
    | cons x mask =>
      simp only [List.replicate_succ, List.cons_append, List.zip_cons_cons, List.take_succ_cons,
        List.drop_succ_cons]
      cases x <;> simp [ih]

theorem rleMask_eq {α : Type} (rs : List (α × Nat)) (mask : List Bool) :
    rleMask rs mask =
      ((rleToDense rs).zip mask).filterMap (fun p => if p.2 then some p.1 else none) := by
  induction rs generalizing mask with
  | nil => simp [rleMask]
  | cons r t ih =>
    obtain ⟨v, c⟩ := r
    rw [rleMask, rleToDense_cons, zip_replicate_mask, ih]

theorem brleMaskFrom_eq (b : Bool) (ls : List Nat) (mask : List Bool) :
    brleMaskFrom b ls mask =
      ((brleToDenseFrom b ls).zip mask).filterMap (fun p => if p.2 then some p.1 else none) := by
  induction ls generalizing b mask with
  | nil => simp [brleMaskFrom]
  | cons c t ih =>
    rw [brleMaskFrom, brleFrom_cons, zip_replicate_mask, ih]

/-! ### sparse -/

theorem zipIdx_replicate {α : Type} (c : Nat) (v : α) (i : Nat) :
    (List.replicate c v).zipIdx i = (List.range c).map (fun k => (v, i + k)) := by
  induction c generalizing i with
  | zero => rfl
  | succ c ih =>
    rw [List.replicate_succ, List.zipIdx_cons, ih, List.range_succ_eq_map]
    simp only [List.map_cons, List.map_map, Nat.add_zero, List.cons.injEq, true_and]
    apply List.map_congr_left
    intro k _
    simp only [Function.comp, Nat.succ_eq_add_one, Prod.mk.injEq, true_and]
    omega

theorem rleToSparseAux_eq (rs : List (Int × Nat)) (i : Nat) :
    rleToSparseAux i rs =
      (((rleToDense rs).zipIdx i).filter (fun p => p.1 != 0)).map (fun p => (p.2, p.1)) := by
  induction rs generalizing i with
  | nil => rfl
  | cons r t ih =>
    obtain ⟨v, c⟩ := r
    rw [rleToSparseAux, rleToDense_cons, List.zipIdx_append, List.filter_append, List.map_append,
      List.length_replicate, ih, zipIdx_replicate]
    congr 1
    by_cases hv : v = 0
    · subst hv
      simp [List.filter_map]
    · have hv' : (v != 0) = true := by simpa using hv
      have hf : ∀ l : List Nat, l.filter (fun _ => true) = l := fun l =>
        List.filter_eq_self.2 (fun _ _ => rfl)
      simp [hv', List.filter_map, Function.comp_def, hf]

theorem brleToSparseAux_eq (ls : List Nat) (b : Bool) (i : Nat) :
    brleToSparseAux i b ls =
      (((brleToDenseFrom b ls).zipIdx i).filter (fun p => p.1)).map (·.2) := by
  induction ls generalizing b i with
  | nil => rfl
  | cons c t ih =>
    rw [brleToSparseAux, brleFrom_cons, List.zipIdx_append, List.filter_append, List.map_append,
      List.length_replicate, ih, zipIdx_replicate]
    congr 1
    cases b
    · simp [List.filter_map]
    · have hf : ∀ l : List Nat, l.filter (fun _ => true) = l := fun l =>
        List.filter_eq_self.2 (fun _ _ => rfl)
      simp [List.filter_map, Function.comp_def, Nat.add_comm, hf]

/-! ### generic stripping of a list from both ends -/

section strip
variable {α : Type}

theorem mem_takeWhile_true (q : α → Bool) (l : List α) : ∀ x ∈ l.takeWhile q, q x = true := by
  induction l with
  | nil => simp
  | cons a t ih =>
    intro x hx
    rw [List.takeWhile_cons] at hx
    split at hx
    · rename_i ha
      rcases List.mem_cons.1 hx with rfl | hx
      · exact ha
      · exact ih x hx
    · simp at hx

theorem dropWhile_of_exists (q : α → Bool) (l : List α) (h : ∃ x ∈ l, q x = false) :
    ∃ a rest, l.dropWhile q = a :: rest ∧ q a = false := by
  induction l with
  | nil => simp at h
  | cons a t ih =>
    rw [List.dropWhile_cons]
    cases ha : q a with
    | false => exact ⟨a, t, by simp, ha⟩
    | true =>
      simp only [if_true]
      apply ih
      obtain ⟨x, hx, hqx⟩ := h
      rcases List.mem_cons.1 hx with rfl | hx
      · rw [ha] at hqx; cases hqx
      · exact ⟨x, hx, hqx⟩

theorem takeWhile_append_of_exists (q : α → Bool) (xs ys : List α)
    (h : ∃ x ∈ xs, q x = false) : (xs ++ ys).takeWhile q = xs.takeWhile q := by
  induction xs with
  | nil => simp at h
  | cons a t ih =>
    rw [List.cons_append, List.takeWhile_cons, List.takeWhile_cons]
    cases ha : q a with
    | false => simp
    | true =>
      simp only [if_true]
      congr 1
      apply ih
      obtain ⟨x, hx, hqx⟩ := h
      rcases List.mem_cons.1 hx with rfl | hx
      · rw [ha] at hqx; cases hqx
      · exact ⟨x, hx, hqx⟩

/-- Stripping the `q`-prefix and the `q`-suffix of a list that has some non-`q` element leaves a
    core that starts and ends with non-`q` elements. -/
theorem strip_decomp (q : α → Bool) (l : List α) (h : ∃ x ∈ l, q x = false) :
    ∃ a b core,
      (l.take (l.length - (l.reverse.takeWhile q).length)).drop (l.takeWhile q).length = core ∧
      l = l.takeWhile q ++ core ++ (l.reverse.takeWhile q).reverse ∧
      (∃ t, core = a :: t) ∧ q a = false ∧ (∃ t, core = t ++ [b]) ∧ q b = false := by
  obtain ⟨a, mid, hdrop, hqa⟩ := dropWhile_of_exists q l h
  have hl : l = l.takeWhile q ++ a :: mid := by
    rw [← hdrop, List.takeWhile_append_dropWhile]
  generalize l.takeWhile q = lead at hl
  have hrev : l.reverse = (a :: mid).reverse ++ lead.reverse := by
    rw [hl, List.reverse_append]
  have hex : ∃ x ∈ (a :: mid).reverse, q x = false :=
    ⟨a, by simp, hqa⟩
  have htrail : l.reverse.takeWhile q = (a :: mid).reverse.takeWhile q := by
    rw [hrev, takeWhile_append_of_exists q _ _ hex]
  obtain ⟨b, r2, hdrop2, hqb⟩ := dropWhile_of_exists q _ hex
  have hsplit : (a :: mid).reverse = (a :: mid).reverse.takeWhile q ++ b :: r2 := by
    rw [← hdrop2, List.takeWhile_append_dropWhile]
  rw [htrail]
  generalize (a :: mid).reverse.takeWhile q = trail at hsplit
  have hmid : a :: mid = (b :: r2).reverse ++ trail.reverse := by
    have := congrArg List.reverse hsplit
    rwa [List.reverse_reverse, List.reverse_append] at this
  have hl2 : l = lead ++ (b :: r2).reverse ++ trail.reverse := by
    rw [hl, hmid, List.append_assoc]
  refine ⟨a, b, (b :: r2).reverse, ?_, hl2, ?_, hqa, ⟨r2.reverse, by simp⟩, hqb⟩
  · have hlen : l.length - trail.length = (lead ++ (b :: r2).reverse).length := by
      rw [hl2]; simp only [List.length_append, List.length_reverse]; omega
    rw [hlen]
    conv => lhs; rw [hl2]
    rw [List.take_left' rfl, List.drop_left' rfl]
  · rw [List.reverse_cons] at hmid ⊢
    cases hr : r2.reverse with
    | nil => rw [hr] at hmid; simp at hmid; exact ⟨[], by rw [hmid.1]; rfl⟩
    | cons x xs =>
      rw [hr] at hmid
      simp at hmid
      exact ⟨xs ++ [b], by rw [hmid.1]; rfl⟩

end strip

/-! ### rleStrip -/

/-- the loop condition of `rle_strip`: the run carries no data (zero value or zero count) -/
def rleNotData (r : Int × Nat) : Bool := !(r.1 != 0 && decide (r.2 > 0))

theorem rleNotData_false (r : Int × Nat) (h : rleNotData r = false) : r.1 ≠ 0 ∧ 0 < r.2 := by
  simpa [rleNotData] using h

theorem notData_dense (l : List (Int × Nat)) (h : ∀ r ∈ l, rleNotData r = true) :
    rleToDense l = List.replicate ((l.map (·.2)).sum) 0 := by
  induction l with
  | nil => rfl
  | cons r t ih =>
    have hr := h r List.mem_cons_self
    have ht := ih (fun x hx => h x (List.mem_cons_of_mem _ hx))
    rw [rleToDense_cons', ht, List.map_cons, List.sum_cons, ← List.replicate_append_replicate]
    congr 1
    simp only [rleNotData, gt_iff_lt, Bool.not_and, Bool.or_eq_true, Bool.not_eq_eq_eq_not,
      Bool.not_true, bne_eq_false_iff_eq, decide_eq_false_iff_not, Nat.not_lt,
      Nat.le_zero_eq] at hr
    rcases hr with hr | hr
    · rw [hr]
    · rw [hr]; rfl

theorem rleStrip_spec (rs : List (Int × Nat)) (h : ∃ v ∈ rleToDense rs, v ≠ 0) :
    List.replicate (rleStrip rs).2.1 0 ++ rleToDense (rleStrip rs).1 ++
        List.replicate (rleStrip rs).2.2 0 = rleToDense rs ∧
      (rleToDense (rleStrip rs).1).head? ≠ some 0 ∧
      (rleToDense (rleStrip rs).1).getLast? ≠ some 0 := by
  have hex : ∃ x ∈ rs, rleNotData x = false := by
    apply Classical.byContradiction
    intro hno
    have hall : ∀ r ∈ rs, rleNotData r = true := by
      intro r hr
      cases hq : rleNotData r
      · exact absurd ⟨r, hr, hq⟩ hno
      · rfl
    obtain ⟨v, hv, hv0⟩ := h
    rw [notData_dense rs hall] at hv
    exact hv0 (List.eq_of_mem_replicate hv)
  obtain ⟨a, b, core, hcore, hl, ⟨ta, hta⟩, hqa, ⟨tb, htb⟩, hqb⟩ := strip_decomp rleNotData rs hex
  have hstrip : rleStrip rs = (core, ((rs.takeWhile rleNotData).map (·.2)).sum,
      ((rs.reverse.takeWhile rleNotData).map (·.2)).sum) := by
    rw [← hcore]; rfl
  rw [hstrip]
  dsimp only
  refine ⟨?_, ?_, ?_⟩
  · conv => rhs; rw [hl]
    rw [rleToDense_append, rleToDense_append,
      notData_dense _ (mem_takeWhile_true rleNotData rs),
      notData_dense (rs.reverse.takeWhile rleNotData).reverse
        (fun r hr => mem_takeWhile_true rleNotData rs.reverse r (List.mem_reverse.1 hr)),
      List.map_reverse, List.sum_reverse_nat]
  · obtain ⟨v, c⟩ := a
    obtain ⟨hv, hc⟩ := rleNotData_false _ hqa
    rw [hta, rleToDense_head v c ta hc]
    intro hh
    exact hv (Option.some.inj hh)
  · obtain ⟨v, c⟩ := b
    obtain ⟨hv, hc⟩ := rleNotData_false _ hqb
    rw [htb, rleToDense_getLast v c tb hc]
    intro hh
    exact hv (Option.some.inj hh)

/-! ### brleStrip -/

/-- the loop condition of `brle_strip` on (position, count): not a non-empty True run -/
def brleNotData (r : Nat × Nat) : Bool := !(r.1 % 2 == 1 && decide (r.2 > 0))

theorem brleNotData_false (r : Nat × Nat) (h : brleNotData r = false) :
    par r.1 = true ∧ 0 < r.2 := by
  simpa [brleNotData, par] using h

/-- dense form of a list of (position, count) runs, value = position odd -/
def tagDense (l : List (Nat × Nat)) : List Bool :=
  rleToDense (l.map (fun r => (par r.1, r.2)))

theorem tagDense_append (a b : List (Nat × Nat)) :
    tagDense (a ++ b) = tagDense a ++ tagDense b := by
  simp [tagDense, rleToDense_append]

theorem tagDense_notData (l : List (Nat × Nat)) (h : ∀ r ∈ l, brleNotData r = true) :
    tagDense l = List.replicate ((l.map (·.2)).sum) false := by
  induction l with
  | nil => rfl
  | cons r t ih =>
    have hr := h r List.mem_cons_self
    have ht := ih (fun x hx => h x (List.mem_cons_of_mem _ hx))
    unfold tagDense at ht ⊢
    rw [List.map_cons, rleToDense_cons, ht, List.map_cons, List.sum_cons,
      ← List.replicate_append_replicate]
    congr 1
    simp only [brleNotData, par_def, gt_iff_lt, Bool.not_and, Bool.or_eq_true,
      Bool.not_eq_eq_eq_not, Bool.not_true, decide_eq_false_iff_not, Nat.not_lt,
      Nat.le_zero_eq] at hr
    rcases hr with hr | hr
    · rw [hr]
    · rw [hr]; rfl

theorem tagDense_consec (l : List (Nat × Nat)) (s : Nat)
    (h : l.map (·.1) = List.range' s l.length) :
    tagDense l = brleToDenseFrom (par s) (l.map (·.2)) := by
  induction l generalizing s with
  | nil => rfl
  | cons r t ih =>
    obtain ⟨p, c⟩ := r
    simp only [List.map_cons, List.length_cons, List.range'_succ, List.cons.injEq] at h
    obtain ⟨hp, ht⟩ := h
    subst hp
    have := ih (p + 1) ht
    unfold tagDense at this ⊢
    simp only [List.map_cons, rleToDense_cons, brleFrom_cons, this, par_succ]

theorem range'_eq_append (x y : List Nat) (s n : Nat) (h : List.range' s n = x ++ y) :
    x = List.range' s x.length ∧ y = List.range' (s + x.length) y.length := by
  induction x generalizing s n with
  | nil =>
    simp only [List.nil_append] at h
    subst h
    simp
  | cons a t ih =>
    cases n with
    | zero => simp at h
    | succ n =>
      rw [List.range'_succ, List.cons_append, List.cons.injEq] at h
      obtain ⟨ha, ht⟩ := h
      subst ha
      obtain ⟨h1, h2⟩ := ih (s + 1) n ht
      refine ⟨?_, ?_⟩
      · rw [List.length_cons, List.range'_succ, ← h1]
      · rw [List.length_cons, show s + (t.length + 1) = s + 1 + t.length by omega]
        exact h2

theorem brleStrip_spec (ls : List Nat) (h : true ∈ brleToDense ls) :
    List.replicate (brleStrip ls).2.1 false ++ brleToDense (brleStrip ls).1 ++
        List.replicate (brleStrip ls).2.2 false = brleToDense ls ∧
      (brleToDense (brleStrip ls).1).head? = some true ∧
      (brleToDense (brleStrip ls).1).getLast? = some true := by
  generalize htag : (List.range ls.length).zip ls = tagged
  have hfst : tagged.map (·.1) = List.range' 0 ls.length := by
    rw [← htag, ← List.range_eq_range']
    exact List.map_fst_zip (by simp)
  have hsnd : tagged.map (·.2) = ls := by
    rw [← htag]
    exact List.map_snd_zip (by simp)
  have hlen : tagged.length = ls.length := by
    rw [← htag]; simp
  have hdense : brleToDense ls = tagDense tagged := by
    rw [tagDense_consec tagged 0 (by rw [hfst, hlen]), hsnd]; rfl
  have hex : ∃ x ∈ tagged, brleNotData x = false := by
    apply Classical.byContradiction
    intro hno
    have hall : ∀ r ∈ tagged, brleNotData r = true := by
      intro r hr
      cases hq : brleNotData r
      · exact absurd ⟨r, hr, hq⟩ hno
      · rfl
    rw [hdense, tagDense_notData tagged hall] at h
    exact absurd (List.eq_of_mem_replicate h) (by decide)
  obtain ⟨a, b, core, hcore, hl, ⟨ta, hta⟩, hqa, ⟨tb, htb⟩, hqb⟩ :=
    strip_decomp brleNotData tagged hex
  have hstrip : brleStrip ls = (0 :: core.map (·.2),
      ((tagged.takeWhile brleNotData).map (·.2)).sum,
      ((tagged.reverse.takeWhile brleNotData).map (·.2)).sum) := by
    rw [← hcore, List.map_drop, List.map_take, hsnd, hlen, ← htag]; rfl
  -- positions inside the core are consecutive and start at an odd position
  have hfst' : List.range' 0 ls.length =
      ((tagged.takeWhile brleNotData).map (·.1) ++ core.map (·.1)) ++
        ((tagged.reverse.takeWhile brleNotData).reverse).map (·.1) := by
    rw [← hfst]
    conv => lhs; rw [hl]
    simp only [List.map_append]
  have h1 := (range'_eq_append _ _ _ _ hfst').1
  have h2 := (range'_eq_append _ _ _ _ h1.symm).2
  simp only [List.length_map, Nat.zero_add] at h2
  have hcoreDense : tagDense core = brleToDenseFrom true (core.map (·.2)) := by
    rw [tagDense_consec core _ h2]
    congr 1
    obtain ⟨p, c⟩ := a
    have hp := (brleNotData_false _ hqa).1
    rw [hta, List.map_cons, List.length_cons, List.range'_succ, List.cons.injEq] at h2
    rw [← h2.1]
    exact hp
  have hbd : brleToDense (0 :: core.map (·.2)) = tagDense core := by
    rw [hcoreDense]; simp [brleToDense]
  rw [hstrip]
  dsimp only
  rw [hbd]
  refine ⟨?_, ?_, ?_⟩
  · rw [hdense]
    conv => rhs; rw [hl]
    rw [tagDense_append, tagDense_append,
      tagDense_notData _ (mem_takeWhile_true brleNotData tagged),
      tagDense_notData (tagged.reverse.takeWhile brleNotData).reverse
        (fun r hr => mem_takeWhile_true brleNotData tagged.reverse r (List.mem_reverse.1 hr)),
      List.map_reverse, List.sum_reverse_nat]
  · obtain ⟨p, c⟩ := a
    obtain ⟨hp, hc⟩ := brleNotData_false _ hqa
    rw [hta, tagDense, List.map_cons, rleToDense_head _ c _ hc]
    exact congrArg some hp
  · obtain ⟨p, c⟩ := b
    obtain ⟨hp, hc⟩ := brleNotData_false _ hqb
    rw [htb, tagDense, List.map_append, List.map_cons, List.map_nil,
      rleToDense_getLast _ c _ hc]
    exact congrArg some hp

end TV.RunLength
