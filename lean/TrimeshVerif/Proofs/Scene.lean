/- definitions for C10: placements of instanced geometry, bounds as folds (ordered field) -/
import TrimeshVerif.Proofs.Affine
import Mathlib.Algebra.Order.Field.Basic
import Mathlib.Order.Lattice
import Mathlib.Algebra.Order.Group.MinMax
namespace TV.Scene
open TV.Mat3 TV.Affine

variable {K : Type} [Field K] [LinearOrder K] [IsStrictOrderedRing K]

/-- componentwise minimum / maximum of a non-empty point list given as head and tail -/
def vmin (a b : V3 K) : V3 K := (min a.1 b.1, min a.2.1 b.2.1, min a.2.2 b.2.2)
def vmax (a b : V3 K) : V3 K := (max a.1 b.1, max a.2.1 b.2.1, max a.2.2 b.2.2)
def lower (p : V3 K) (ps : List (V3 K)) : V3 K := ps.foldl vmin p
def upper (p : V3 K) (ps : List (V3 K)) : V3 K := ps.foldl vmax p

/-- an instance: the world transform `x ↦ L x + t` of a node and the points of its geometry -/
structure Instance (K : Type) where
  L : M3 K
  t : V3 K
  pts : List (V3 K)

/-- explicit placement: a copy of the geometry's points at the node's world transform -/
def placed (i : Instance K) : List (V3 K) := i.pts.map (transformPoint i.L i.t)

/-- what `bounds_corners` computes per node: min / max of the rotated points, then the translation added -/
def nodeLower (i : Instance K) (p0 : V3 K) : V3 K := add (lower (i.L.apply p0) (i.pts.map i.L.apply)) i.t
def nodeUpper (i : Instance K) (p0 : V3 K) : V3 K := add (upper (i.L.apply p0) (i.pts.map i.L.apply)) i.t

/-- uniform scaling of a scene by `s`: geometry scaled by `s`, node translations scaled by `s` -/
def scaledUniform (s : K) (i : Instance K) : Instance K :=
  ⟨i.L, smul s i.t, i.pts.map (smul s)⟩

/-- moving every node by the matrix `M` applied at the base frame -/
def transformed (M : M3 K) (m : V3 K) (i : Instance K) : Instance K :=
  ⟨M * i.L, add (M.apply i.t) m, i.pts⟩

/-! ### helper lemmas for C10 (additive) -/

set_option linter.unusedSectionVars false

theorem vmin_assoc (a b c : V3 K) : vmin (vmin a b) c = vmin a (vmin b c) := by
  simp only [vmin, min_assoc]

theorem vmax_assoc (a b c : V3 K) : vmax (vmax a b) c = vmax a (vmax b c) := by
  simp only [vmax, max_assoc]

theorem vmin_comm (a b : V3 K) : vmin a b = vmin b a := by
  simp only [vmin, min_comm]

theorem vmax_comm (a b : V3 K) : vmax a b = vmax b a := by
  simp only [vmax, max_comm]

theorem vmin_self (a : V3 K) : vmin a a = a := by
  simp only [vmin, min_self]

theorem vmax_self (a : V3 K) : vmax a a = a := by
  simp only [vmax, max_self]

/-- the accumulator can be pulled out of the fold -/
theorem foldl_vmin_vmin (a b : V3 K) (ps : List (V3 K)) :
    ps.foldl vmin (vmin a b) = vmin a (ps.foldl vmin b) := by
  induction ps generalizing b with
  | nil => rfl
  | cons x xs ih => simp only [List.foldl_cons, vmin_assoc, ih]

theorem foldl_vmax_vmax (a b : V3 K) (ps : List (V3 K)) :
    ps.foldl vmax (vmax a b) = vmax a (ps.foldl vmax b) := by
  induction ps generalizing b with
  | nil => rfl
  | cons x xs ih => simp only [List.foldl_cons, vmax_assoc, ih]

/-- recursive characterisation of `lower` / `upper` -/
theorem lower_nil (p : V3 K) : lower p [] = p := rfl
theorem upper_nil (p : V3 K) : upper p [] = p := rfl

theorem lower_cons (p x : V3 K) (xs : List (V3 K)) : lower p (x :: xs) = vmin p (lower x xs) := by
  simp only [lower, List.foldl_cons, foldl_vmin_vmin]

theorem upper_cons (p x : V3 K) (xs : List (V3 K)) : upper p (x :: xs) = vmax p (upper x xs) := by
  simp only [upper, List.foldl_cons, foldl_vmax_vmax]

/-- the head is absorbed by the fold -/
theorem vmin_lower_self (p : V3 K) (ps : List (V3 K)) : vmin (lower p ps) p = lower p ps := by
  have h := foldl_vmin_vmin p p ps
  rw [vmin_self] at h
  rw [vmin_comm]
  exact h.symm

theorem vmax_upper_self (p : V3 K) (ps : List (V3 K)) : vmax (upper p ps) p = upper p ps := by
  have h := foldl_vmax_vmax p p ps
  rw [vmax_self] at h
  rw [vmax_comm]
  exact h.symm

theorem lower_append (p : V3 K) (ps qs : List (V3 K)) :
    lower p (ps ++ qs) = vmin (lower p ps) (lower p qs) := by
  have h : lower p (ps ++ qs) = qs.foldl vmin (lower p ps) := by
    simp only [lower, List.foldl_append]
  rw [h, ← vmin_lower_self p ps, foldl_vmin_vmin, vmin_lower_self]
  rfl

theorem upper_append (p : V3 K) (ps qs : List (V3 K)) :
    upper p (ps ++ qs) = vmax (upper p ps) (upper p qs) := by
  have h : upper p (ps ++ qs) = qs.foldl vmax (upper p ps) := by
    simp only [upper, List.foldl_append]
  rw [h, ← vmax_upper_self p ps, foldl_vmax_vmax, vmax_upper_self]
  rfl

theorem lower_le (p : V3 K) (ps : List (V3 K)) :
    ∀ q ∈ p :: ps, (lower p ps).1 ≤ q.1 ∧ (lower p ps).2.1 ≤ q.2.1 ∧ (lower p ps).2.2 ≤ q.2.2 := by
  induction ps generalizing p with
  | nil =>
    intro q hq
    rw [List.mem_singleton] at hq
    subst hq
    exact ⟨le_refl _, le_refl _, le_refl _⟩
  | cons x xs ih =>
    intro q hq
    rw [lower_cons]
    rcases List.mem_cons.mp hq with rfl | hq
    · exact ⟨min_le_left _ _, min_le_left _ _, min_le_left _ _⟩
    · obtain ⟨h1, h2, h3⟩ := ih x q hq
      exact ⟨le_trans (min_le_right _ _) h1, le_trans (min_le_right _ _) h2,
        le_trans (min_le_right _ _) h3⟩

theorem lower_attained_1 (p : V3 K) (ps : List (V3 K)) : ∃ q ∈ p :: ps, (lower p ps).1 = q.1 := by
  induction ps generalizing p with
  | nil => exact ⟨p, List.mem_cons_self, rfl⟩
  | cons x xs ih =>
    rw [lower_cons]
    rcases min_choice p.1 (lower x xs).1 with h | h
    · exact ⟨p, List.mem_cons_self, h⟩
    · obtain ⟨q, hq, e⟩ := ih x
      exact ⟨q, List.mem_cons_of_mem _ hq, h.trans e⟩

theorem lower_attained_2 (p : V3 K) (ps : List (V3 K)) : ∃ q ∈ p :: ps, (lower p ps).2.1 = q.2.1 := by
  induction ps generalizing p with
  | nil => exact ⟨p, List.mem_cons_self, rfl⟩
  | cons x xs ih =>
    rw [lower_cons]
    rcases min_choice p.2.1 (lower x xs).2.1 with h | h
    · exact ⟨p, List.mem_cons_self, h⟩
    · obtain ⟨q, hq, e⟩ := ih x
      exact ⟨q, List.mem_cons_of_mem _ hq, h.trans e⟩

theorem lower_attained_3 (p : V3 K) (ps : List (V3 K)) : ∃ q ∈ p :: ps, (lower p ps).2.2 = q.2.2 := by
  induction ps generalizing p with
  | nil => exact ⟨p, List.mem_cons_self, rfl⟩
  | cons x xs ih =>
    rw [lower_cons]
    rcases min_choice p.2.2 (lower x xs).2.2 with h | h
    · exact ⟨p, List.mem_cons_self, h⟩
    · obtain ⟨q, hq, e⟩ := ih x
      exact ⟨q, List.mem_cons_of_mem _ hq, h.trans e⟩

/-- translation commutes with the componentwise minimum / maximum -/
theorem add_vmin (a b t : V3 K) : add (vmin a b) t = vmin (add a t) (add b t) := by
  simp only [add, vmin, min_add_add_right]

theorem add_vmax (a b t : V3 K) : add (vmax a b) t = vmax (add a t) (add b t) := by
  simp only [add, vmax, max_add_add_right]

theorem add_foldl_vmin (f : V3 K → V3 K) (t a : V3 K) (ps : List (V3 K)) :
    add ((ps.map f).foldl vmin a) t = (ps.map (fun p => add (f p) t)).foldl vmin (add a t) := by
  induction ps generalizing a with
  | nil => rfl
  | cons x xs ih => simp only [List.map_cons, List.foldl_cons, ih, add_vmin]

theorem add_foldl_vmax (f : V3 K → V3 K) (t a : V3 K) (ps : List (V3 K)) :
    add ((ps.map f).foldl vmax a) t = (ps.map (fun p => add (f p) t)).foldl vmax (add a t) := by
  induction ps generalizing a with
  | nil => rfl
  | cons x xs ih => simp only [List.map_cons, List.foldl_cons, ih, add_vmax]

theorem nodeLower_eq (i : Instance K) (p0 : V3 K) :
    nodeLower i p0 = lower (transformPoint i.L i.t p0) (placed i) := by
  simp only [nodeLower, lower, placed, add_foldl_vmin]
  rfl

theorem nodeUpper_eq (i : Instance K) (p0 : V3 K) :
    nodeUpper i p0 = upper (transformPoint i.L i.t p0) (placed i) := by
  simp only [nodeUpper, upper, placed, add_foldl_vmax]
  rfl

/-- linearity of the placement in the scale factor -/
theorem transformPoint_smul (L : M3 K) (t p : V3 K) (s : K) :
    transformPoint L (smul s t) (smul s p) = smul s (transformPoint L t p) := by
  obtain ⟨l00, l01, l02, l10, l11, l12, l20, l21, l22⟩ := L
  obtain ⟨t1, t2, t3⟩ := t
  obtain ⟨p1, p2, p3⟩ := p
  simp only [transformPoint, add, smul, M3.apply, Prod.mk.injEq]
  refine ⟨?_, ?_, ?_⟩ <;> ring

theorem transformPoint_comp (M L : M3 K) (m t p : V3 K) :
    transformPoint (M * L) (add (M.apply t) m) p = transformPoint M m (transformPoint L t p) := by
  obtain ⟨a00, a01, a02, a10, a11, a12, a20, a21, a22⟩ := L
  obtain ⟨b00, b01, b02, b10, b11, b12, b20, b21, b22⟩ := M
  obtain ⟨x1, x2, x3⟩ := t
  obtain ⟨y1, y2, y3⟩ := m
  obtain ⟨p1, p2, p3⟩ := p
  have e : ∀ X Y : M3 K, X * Y = M3.mul X Y := fun _ _ => rfl
  simp only [e, transformPoint, add, M3.apply, M3.mul, Prod.mk.injEq]
  refine ⟨?_, ?_, ?_⟩ <;> ring

theorem placed_scaledUniform (s : K) (i : Instance K) :
    placed (scaledUniform s i) = (placed i).map (smul s) := by
  simp only [placed, scaledUniform, List.map_map]
  apply List.map_congr_left
  intro p _
  exact transformPoint_smul i.L i.t p s

theorem placed_transformed (M : M3 K) (m : V3 K) (i : Instance K) :
    placed (transformed M m i) = (placed i).map (transformPoint M m) := by
  simp only [placed, transformed, List.map_map]
  apply List.map_congr_left
  intro p _
  exact transformPoint_comp M i.L m i.t p

/-- the translation part of the signed volume is a sum of antisymmetric edge terms -/
def volEdge (L : M3 K) (t u v : V3 K) : K := dot t (cross (L.apply u) (L.apply v)) / 6

theorem volEdge_antisymm (L : M3 K) (t u v : V3 K) : volEdge L t u v + volEdge L t v u = 0 := by
  obtain ⟨l00, l01, l02, l10, l11, l12, l20, l21, l22⟩ := L
  obtain ⟨t1, t2, t3⟩ := t
  obtain ⟨u1, u2, u3⟩ := u
  obtain ⟨v1, v2, v3⟩ := v
  simp only [volEdge, dot, cross, M3.apply]
  ring

theorem vol_transformPoint (L : M3 K) (t a b c : V3 K) :
    vol (transformPoint L t a) (transformPoint L t b) (transformPoint L t c)
      = L.det * vol a b c + (volEdge L t a b + volEdge L t b c + volEdge L t c a) := by
  obtain ⟨l00, l01, l02, l10, l11, l12, l20, l21, l22⟩ := L
  obtain ⟨t1, t2, t3⟩ := t
  obtain ⟨a1, a2, a3⟩ := a
  obtain ⟨b1, b2, b3⟩ := b
  obtain ⟨c1, c2, c3⟩ := c
  simp only [vol, TV.Moments.T0, TV.Moments.det3, volEdge, dot, cross, transformPoint, add, M3.apply,
    M3.det]
  ring

end TV.Scene
