import TrimeshVerif.Model.SceneAppend
/-
`append_scenes` never merges nodes of different scenes (C10): with identifiers that are new (`gen` injective and
never equal to a node name), the renamed node names of two different scenes meet only in `common`, and inside one
scene the renaming is a one-to-one function of the node name.  Core Lean only.
-/
namespace TV.SceneAppend

variable {α : Type} [DecidableEq α]

/-- the node is renamed when it is appended after `consumed` was used -/
def ren (common consumed : List α) (n : α) : Bool := !common.contains n && consumed.contains n

structure Inv (gen : Nat → α) (common consumed : List α) (ctr0 : Nat) (ns : List α) (st : Loc α) : Prop where
  ctr_ge : ctr0 ≤ st.ctr
  map_vals : ∀ p ∈ st.mapNode, ∃ c, ctr0 ≤ c ∧ c < st.ctr ∧ p.2 = gen c
  map_keys : ∀ p ∈ st.mapNode, ren common consumed p.1 = true
  map_cur : ∀ p ∈ st.mapNode, p.2 ∈ st.current
  cur_src : ∀ x ∈ st.current, x ∈ ns ∨ ∃ c, ctr0 ≤ c ∧ c < st.ctr ∧ x = gen c

theorem lookup_mem {l : List (α × α)} {k v : α} (h : l.lookup k = some v) : (k, v) ∈ l := by
  induction l with
  | nil => simp [List.lookup] at h
  | cons p t ih =>
    obtain ⟨a, b⟩ := p
    simp only [List.lookup_cons] at h
    by_cases e : k = a
    · subst e; simp at h; subst h; exact List.mem_cons_self
    · have : (k == a) = false := by simpa using e
      rw [this] at h
      exact List.mem_cons_of_mem _ (ih h)

/-- one call of `node_remap` -/
theorem remap_spec (gen : Nat → α) (common consumed : List α) (ctr0 : Nat) (ns : List α) (st : Loc α) (n : α)
    (hn : n ∈ ns) (hinv : Inv gen common consumed ctr0 ns st) :
    let r := remap gen common consumed st n
    Inv gen common consumed ctr0 ns r.1 ∧
    (∀ m v, st.mapNode.lookup m = some v → r.1.mapNode.lookup m = some v) ∧
    (ren common consumed n = true → r.1.mapNode.lookup n = some r.2) ∧
    (ren common consumed n = false → r.2 = n) ∧
    r.2 ∈ r.1.current ∧ (∀ x ∈ st.current, x ∈ r.1.current) ∧ st.ctr ≤ r.1.ctr := by
  unfold remap
  cases hl : st.mapNode.lookup n with
  | some m =>
    simp only
    refine ⟨hinv, fun _ _ h => h, fun _ => hl, ?_, hinv.map_cur _ (lookup_mem hl), fun _ h => h, Nat.le_refl _⟩
    intro hr
    have := hinv.map_keys _ (lookup_mem hl)
    simp only at this
    rw [hr] at this; exact absurd this (by simp)
  | none =>
    simp only
    by_cases hr : ren common consumed n = true
    · have hr' : (!common.contains n && consumed.contains n) = true := hr
      simp only [hr', if_true]
      refine ⟨⟨Nat.le_succ_of_le hinv.ctr_ge, ?_, ?_, ?_, ?_⟩, ?_, ?_, ?_, List.mem_cons_self, ?_, Nat.le_succ _⟩
      · intro p hp
        rcases List.mem_cons.mp hp with rfl | hp
        · exact ⟨st.ctr, hinv.ctr_ge, Nat.lt_succ_self _, rfl⟩
        · obtain ⟨c, h1, h2, h3⟩ := hinv.map_vals p hp
          exact ⟨c, h1, Nat.lt_succ_of_lt h2, h3⟩
      · intro p hp
        rcases List.mem_cons.mp hp with rfl | hp
        · exact hr
        · exact hinv.map_keys p hp
      · intro p hp
        rcases List.mem_cons.mp hp with rfl | hp
        · exact List.mem_cons_self
        · exact List.mem_cons_of_mem _ (hinv.map_cur p hp)
      · intro x hx
        rcases List.mem_cons.mp hx with rfl | hx
        · exact Or.inr ⟨st.ctr, hinv.ctr_ge, Nat.lt_succ_self _, rfl⟩
        · rcases hinv.cur_src x hx with h | ⟨c, h1, h2, h3⟩
          · exact Or.inl h
          · exact Or.inr ⟨c, h1, Nat.lt_succ_of_lt h2, h3⟩
      · intro m v h
        simp only [List.lookup_cons]
        by_cases e : m = n
        · subst e; rw [hl] at h; exact absurd h (by simp)
        · have : (m == n) = false := by simpa using e
          rw [this]; exact h
      · intro _; simp [List.lookup_cons]
      · intro h; rw [hr] at h; exact absurd h (by simp)
      · intro x hx; exact List.mem_cons_of_mem _ hx
    · have hr' : (!common.contains n && consumed.contains n) = false := by
        simpa [ren] using hr
      simp only [hr']
      refine ⟨⟨hinv.ctr_ge, hinv.map_vals, hinv.map_keys, ?_, ?_⟩, fun _ _ h => h, ?_, fun _ => rfl,
        List.mem_cons_self, fun x hx => List.mem_cons_of_mem _ hx, Nat.le_refl _⟩
      · intro p hp; exact List.mem_cons_of_mem _ (hinv.map_cur p hp)
      · intro x hx
        rcases List.mem_cons.mp hx with rfl | hx
        · exact Or.inl hn
        · exact hinv.cur_src x hx
      · intro h; exact absurd h hr

/-- all occurrences of one scene -/
theorem remapAll_spec (gen : Nat → α) (common consumed : List α) (ctr0 : Nat) (all : List α) :
    ∀ (ns : List α) (st : Loc α), (∀ n ∈ ns, n ∈ all) → Inv gen common consumed ctr0 all st →
    let r := remapAll gen common consumed st ns
    Inv gen common consumed ctr0 all r.1 ∧ r.2.length = ns.length ∧
    (∀ m v, st.mapNode.lookup m = some v → r.1.mapNode.lookup m = some v) ∧
    (∀ (i : Nat) (n o : α), ns[i]? = some n → r.2[i]? = some o →
        (ren common consumed n = true → r.1.mapNode.lookup n = some o) ∧
        (ren common consumed n = false → o = n)) ∧
    (∀ o ∈ r.2, o ∈ r.1.current) ∧ (∀ x ∈ st.current, x ∈ r.1.current) ∧ st.ctr ≤ r.1.ctr
  | [], st, _, hinv => by
    simp only [remapAll]
    refine ⟨hinv, ?_, fun _ _ h => h, ?_, ?_, fun _ h => h, Nat.le_refl _⟩
    · simp
    · intro i n o hi; simp at hi
    · simp
  | n :: ns, st, hns, hinv => by
    have h1 := remap_spec gen common consumed ctr0 all st n (hns n List.mem_cons_self) hinv
    simp only at h1
    obtain ⟨i1, s1, r1, q1, c1, k1, t1⟩ := h1
    have h2 := remapAll_spec gen common consumed ctr0 all ns (remap gen common consumed st n).1
      (fun m hm => hns m (List.mem_cons_of_mem _ hm)) i1
    simp only at h2
    obtain ⟨i2, l2, s2, r2, c2, k2, t2⟩ := h2
    simp only [remapAll]
    refine ⟨i2, by simp [l2], fun m v h => s2 m v (s1 m v h), ?_, ?_, fun x hx => k2 x (k1 x hx), Nat.le_trans t1 t2⟩
    · intro i m o hi ho
      cases i with
      | zero =>
        simp only [List.getElem?_cons_zero, Option.some.injEq] at hi ho
        subst hi ho
        exact ⟨fun h => s2 _ _ (r1 h), q1⟩
      | succ i =>
        simp only [List.getElem?_cons_succ] at hi ho
        exact r2 i m o hi ho
    · intro o ho
      rcases List.mem_cons.mp ho with rfl | ho
      · exact k2 _ c1
      · exact c2 o ho

/-- the values of `map_node` are pairwise different (each is a newly drawn identifier) -/
theorem map_vals_inj (gen : Nat → α) (hgen : ∀ a b, gen a = gen b → a = b) (common consumed : List α) (ctr0 : Nat)
    (all : List α) : ∀ (ns : List α) (st : Loc α), (∀ n ∈ ns, n ∈ all) → Inv gen common consumed ctr0 all st →
    (∀ a b va vb, st.mapNode.lookup a = some va → st.mapNode.lookup b = some vb → va = vb → a = b) →
    let r := remapAll gen common consumed st ns
    ∀ a b va vb, r.1.mapNode.lookup a = some va → r.1.mapNode.lookup b = some vb → va = vb → a = b
  | [], st, _, _, h => by simpa [remapAll] using h
  | n :: ns, st, hns, hinv, h => by
    simp only [remapAll]
    have hs := remap_spec gen common consumed ctr0 all st n (hns n List.mem_cons_self) hinv
    simp only at hs
    apply map_vals_inj gen hgen common consumed ctr0 all ns _ (fun m hm => hns m (List.mem_cons_of_mem _ hm)) hs.1
    -- one step keeps the values different
    unfold remap
    cases hl : st.mapNode.lookup n with
    | some m => simpa using h
    | none =>
      simp only
      by_cases hr : (!common.contains n && consumed.contains n) = true
      · simp only [hr, if_true]
        intro a b va vb ha hb hv
        simp only [List.lookup_cons] at ha hb
        by_cases ea : a = n <;> by_cases eb : b = n
        · rw [ea, eb]
        · -- a is the new key, b an old one: the old value was drawn earlier
          have ea' : (a == n) = true := by simpa using ea
          have eb' : (b == n) = false := by simpa using eb
          rw [ea'] at ha; rw [eb'] at hb
          simp only [Option.some.injEq] at ha
          obtain ⟨c, _, hc, hvc⟩ := hinv.map_vals _ (lookup_mem hb)
          simp only at hvc
          have : st.ctr = c := hgen _ _ (by rw [ha, hv, hvc])
          omega
        · have ea' : (a == n) = false := by simpa using ea
          have eb' : (b == n) = true := by simpa using eb
          rw [ea'] at ha; rw [eb'] at hb
          simp only [Option.some.injEq] at hb
          obtain ⟨c, _, hc, hvc⟩ := hinv.map_vals _ (lookup_mem ha)
          simp only at hvc
          have : st.ctr = c := hgen _ _ (by rw [hb, ← hv, hvc])
          omega
        · have ea' : (a == n) = false := by simpa using ea
          have eb' : (b == n) = false := by simpa using eb
          rw [ea'] at ha; rw [eb'] at hb
          exact h a b va vb ha hb hv
      · simp only [hr]
        simpa using h

end TV.SceneAppend

namespace TV.SceneAppend

variable {α : Type} [DecidableEq α]

theorem inv_init (gen : Nat → α) (common consumed : List α) (ctr : Nat) (ns : List α) :
    Inv gen common consumed ctr ns ⟨[], [], ctr⟩ :=
  ⟨Nat.le_refl _, by simp, by simp, by simp, by simp⟩

/-- **inside one scene the renaming is a one-to-one function of the node name** -/
theorem scene_injective (gen : Nat → α) (hgen : ∀ a b, gen a = gen b → a = b) (common consumed : List α) (ctr : Nat)
    (ns : List α) (hnames : ∀ c, gen c ∉ ns) (i j : Nat) (n n' o o' : α)
    (hi : ns[i]? = some n) (hj : ns[j]? = some n')
    (ho : (remapAll gen common consumed ⟨[], [], ctr⟩ ns).2[i]? = some o)
    (ho' : (remapAll gen common consumed ⟨[], [], ctr⟩ ns).2[j]? = some o') :
    o = o' ↔ n = n' := by
  have hs := remapAll_spec gen common consumed ctr ns ns ⟨[], [], ctr⟩ (fun _ h => h) (inv_init gen common consumed ctr ns)
  simp only at hs
  obtain ⟨hinv, _, _, hocc, _, _, _⟩ := hs
  have hinj := map_vals_inj gen hgen common consumed ctr ns ns ⟨[], [], ctr⟩ (fun _ h => h)
    (inv_init gen common consumed ctr ns) (by intro a b va vb h; simp at h)
  simp only at hinj
  have a := hocc i n o hi ho
  have b := hocc j n' o' hj ho'
  have hn : n ∈ ns := List.mem_of_getElem? hi
  have hn' : n' ∈ ns := List.mem_of_getElem? hj
  cases h1 : ren common consumed n <;> cases h2 : ren common consumed n'
  · rw [a.2 h1, b.2 h2]
  · -- o = n is a node name, o' a drawn identifier
    have e1 := a.2 h1
    obtain ⟨c, _, _, hc⟩ := hinv.map_vals _ (lookup_mem (b.1 h2))
    simp only at hc
    constructor
    · intro e; exfalso; apply hnames c; rw [← hc, ← e, e1]; exact hn
    · intro e; rw [e, h2] at h1; exact absurd h1 (by simp)
  · have e2 := b.2 h2
    obtain ⟨c, _, _, hc⟩ := hinv.map_vals _ (lookup_mem (a.1 h1))
    simp only at hc
    constructor
    · intro e; exfalso; apply hnames c; rw [← hc, e, e2]; exact hn'
    · intro e; rw [e, h2] at h1; exact absurd h1 (by simp)
  · constructor
    · intro e; exact hinj n n' o o' (a.1 h1) (b.1 h2) e
    · intro e; subst e
      have := (a.1 h1).symm.trans (b.1 h2)
      simpa using this

/-- a renamed node name that was already used by an earlier scene is a common node -/
theorem scene_fresh (gen : Nat → α) (common consumed : List α) (ctr : Nat) (ns : List α)
    (hfresh : ∀ c, ctr ≤ c → gen c ∉ consumed) :
    ∀ o ∈ (remapAll gen common consumed ⟨[], [], ctr⟩ ns).2, o ∈ consumed → o ∈ common := by
  have hs := remapAll_spec gen common consumed ctr ns ns ⟨[], [], ctr⟩ (fun _ h => h) (inv_init gen common consumed ctr ns)
  simp only at hs
  obtain ⟨hinv, hlen, _, hocc, _, _, _⟩ := hs
  intro o ho hc
  obtain ⟨i, hi, rfl⟩ := List.mem_iff_getElem.mp ho
  have hi' : i < ns.length := by omega
  have := hocc i ns[i] _ (List.getElem?_eq_getElem hi') (List.getElem?_eq_getElem hi)
  cases h1 : ren common consumed ns[i]
  · have e := this.2 h1
    rw [e] at hc ⊢
    simp only [ren, Bool.and_eq_false_iff, Bool.not_eq_false', List.contains_iff_mem] at h1
    rcases h1 with h | h
    · simpa using h
    · exact absurd hc (by simpa using h)
  · obtain ⟨c, hc1, _, hc2⟩ := hinv.map_vals _ (lookup_mem (this.1 h1))
    simp only at hc2
    rw [hc2] at hc
    exact absurd hc (hfresh c hc1)

/-- **nodes of different scenes are never merged**: the renamed node names of two different appended scenes meet
    only in `common`; and none of them collides with a name in use before, unless it is common -/
theorem appendAll_disjoint (gen : Nat → α) (hgen : ∀ a b, gen a = gen b → a = b) (common : List α) :
    ∀ (ss : List (List α)) (consumed : List α) (ctr : Nat),
      (∀ c, ctr ≤ c → gen c ∉ consumed) → (∀ c, ∀ s ∈ ss, gen c ∉ s) →
      (∀ A ∈ appendAll gen common consumed ctr ss, ∀ x ∈ A, x ∈ consumed → x ∈ common) ∧
      (appendAll gen common consumed ctr ss).Pairwise (fun A B => ∀ x ∈ A, x ∈ B → x ∈ common)
  | [], _, _, _, _ => by simp [appendAll]
  | s :: ss, consumed, ctr, h1, h2 => by
    simp only [appendAll]
    have hs := remapAll_spec gen common consumed ctr s s ⟨[], [], ctr⟩ (fun _ h => h) (inv_init gen common consumed ctr s)
    simp only at hs
    obtain ⟨hinv, _, _, _, hcur, _, hctr⟩ := hs
    have h1' : ∀ c, (remapAll gen common consumed ⟨[], [], ctr⟩ s).1.ctr ≤ c →
        gen c ∉ consumed ++ (remapAll gen common consumed ⟨[], [], ctr⟩ s).1.current := by
      intro c hc hm
      rcases List.mem_append.mp hm with hm | hm
      · exact h1 c (Nat.le_trans hctr hc) hm
      · rcases hinv.cur_src _ hm with h | ⟨c', _, hlt, he⟩
        · exact h2 c s List.mem_cons_self h
        · have := hgen _ _ he; omega
    have ih := appendAll_disjoint gen hgen common ss _ _ h1' (fun c t ht => h2 c t (List.mem_cons_of_mem _ ht))
    refine ⟨?_, ?_⟩
    · intro A hA x hx hc
      rcases List.mem_cons.mp hA with rfl | hA
      · exact scene_fresh gen common consumed ctr s h1 x hx hc
      · exact ih.1 A hA x hx (List.mem_append_left _ hc)
    · rw [List.pairwise_cons]
      refine ⟨?_, ih.2⟩
      intro B hB x hx hxB
      exact ih.1 B hB x hxB (List.mem_append_right _ (hcur x hx))

end TV.SceneAppend
