import TrimeshVerif.Proofs.Scene
/-
C10: `Scene.scaled` with three different factors.  The code scales every geometry in the node's own frame
(`T⁻¹ · diag(s) · T` with `T` the linear part of the node's world matrix) and multiplies every edge translation by
`diag(s)`.  That moves every placed point to `diag(s) · p` exactly when `diag(s)` commutes with the linear part of
every edge on the way to the node; otherwise it does not (witness below; the defect is a recorded finding).
-/
namespace TV.Scene
open TV.Mat3 TV.Affine

variable {K : Type} [Field K]

/-- world transform of a node reached through a chain of edges `(R, u)`, base frame first -/
def chainWorld : List (M3 K × V3 K) → M3 K × V3 K
  | [] => (1, (0, 0, 0))
  | (R, u) :: rest => let w := chainWorld rest; (R * w.1, add (R.apply w.2) u)

/-- what `scaled` does to an edge: the translation column is multiplied by the scale, the rest is kept -/
def scaleEdge (S : M3 K) (e : M3 K × V3 K) : M3 K × V3 K := (e.1, S.apply e.2)

theorem apply_mul (A B : M3 K) (v : V3 K) : (A * B).apply v = A.apply (B.apply v) := by
  obtain ⟨a00, a01, a02, a10, a11, a12, a20, a21, a22⟩ := A
  obtain ⟨b00, b01, b02, b10, b11, b12, b20, b21, b22⟩ := B
  obtain ⟨x, y, z⟩ := v
  have e : ∀ X Y : M3 K, X * Y = M3.mul X Y := fun _ _ => rfl
  simp only [e, M3.apply, M3.mul, Prod.mk.injEq]
  refine ⟨?_, ?_, ?_⟩ <;> ring

theorem apply_add (A : M3 K) (a b : V3 K) : A.apply (add a b) = add (A.apply a) (A.apply b) := by
  obtain ⟨a00, a01, a02, a10, a11, a12, a20, a21, a22⟩ := A
  obtain ⟨x, y, z⟩ := a
  obtain ⟨x', y', z'⟩ := b
  simp only [M3.apply, add, Prod.mk.injEq]
  refine ⟨?_, ?_, ?_⟩ <;> ring

theorem chainWorld_scaled (S : M3 K) (es : List (M3 K × V3 K)) (hc : ∀ e ∈ es, S * e.1 = e.1 * S) :
    chainWorld (es.map (scaleEdge S)) = ((chainWorld es).1, S.apply (chainWorld es).2) := by
  induction es with
  | nil =>
    simp only [List.map_nil, chainWorld, Prod.mk.injEq, true_and]
    obtain ⟨a00, a01, a02, a10, a11, a12, a20, a21, a22⟩ := S
    simp [M3.apply]
  | cons e rest ih =>
    obtain ⟨R, u⟩ := e
    have hR : S * R = R * S := hc (R, u) (by simp)
    have ih' := ih (fun e he => hc e (by simp [he]))
    simp only [List.map_cons, chainWorld, scaleEdge, ih', Prod.mk.injEq, true_and]
    rw [apply_add, ← apply_mul, ← apply_mul, hR]

/-- **per-axis scaling is exact when the scale commutes with every edge rotation on the way to the node**: the
    scaled scene places the re-scaled geometry point at `S · (placement of the original point)` -/
theorem perAxis_exact (S : M3 K) (es : List (M3 K × V3 K)) (hc : ∀ e ∈ es, S * e.1 = e.1 * S)
    (p p' : V3 K) (hp : (chainWorld es).1.apply p' = S.apply ((chainWorld es).1.apply p)) :
    transformPoint (chainWorld (es.map (scaleEdge S))).1 (chainWorld (es.map (scaleEdge S))).2 p'
      = S.apply (transformPoint (chainWorld es).1 (chainWorld es).2 p) := by
  rw [chainWorld_scaled S es hc]
  simp only [transformPoint]
  rw [hp, apply_add]

end TV.Scene
