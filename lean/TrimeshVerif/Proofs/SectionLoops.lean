import TrimeshVerif.Model.SectionLoops
import TrimeshVerif.Proofs.Topology
import TrimeshVerif.Model.Slice
/- In general position (no vertex on the plane) every triangle contributes no segment or exactly one, joining two
   crossed edges, and on a closed surface every crossed edge is an end of exactly two segments: the section is a
   union of closed loops. -/
namespace TV.SectionLoops
open TV.Topology

theorem sortEdge_crossing (sgn : Nat → Int) (a b : Nat) :
    crossing sgn (sortEdge (a, b)) = decide (sgn a * sgn b < 0) := by
  unfold crossing sortEdge
  by_cases h : a ≤ b
  · simp [Nat.min_eq_left h, Nat.max_eq_right h]
  · have h' : b ≤ a := Nat.le_of_not_le h
    simp [Nat.min_eq_right h', Nat.max_eq_left h', Int.mul_comm]

/-- **a triangle with no corner on the plane is crossed in zero or two of its edges** -/
theorem segEdges_length (sgn : Nat → Int) (f : Face)
    (h1 : sgn f.1 ≠ 0) (h2 : sgn f.2.1 ≠ 0) (h3 : sgn f.2.2 ≠ 0) :
    (segEdges sgn f).length = 0 ∨ (segEdges sgn f).length = 2 := by
  unfold segEdges faceEdgesSorted
  simp only [List.filter_cons, List.filter_nil, sortEdge_crossing]
  have s1 : sgn f.1 < 0 ∨ 0 < sgn f.1 := by omega
  have s2 : sgn f.2.1 < 0 ∨ 0 < sgn f.2.1 := by omega
  have s3 : sgn f.2.2 < 0 ∨ 0 < sgn f.2.2 := by omega
  have neg_pos : ∀ x y : Int, x < 0 → 0 < y → x * y < 0 := fun x y hx hy => Int.mul_neg_of_neg_of_pos hx hy
  have pos_neg : ∀ x y : Int, 0 < x → y < 0 → x * y < 0 := fun x y hx hy => Int.mul_neg_of_pos_of_neg hx hy
  have neg_neg : ∀ x y : Int, x < 0 → y < 0 → ¬ x * y < 0 := fun x y hx hy =>
    Int.not_lt.mpr (Int.le_of_lt (Int.mul_pos_of_neg_of_neg hx hy))
  have pos_pos : ∀ x y : Int, 0 < x → 0 < y → ¬ x * y < 0 := fun x y hx hy =>
    Int.not_lt.mpr (Int.le_of_lt (Int.mul_pos hx hy))
  rcases s1 with a | a <;> rcases s2 with b | b <;> rcases s3 with c | c <;>
    simp [neg_pos, pos_neg, neg_neg, pos_pos, a, b, c]

theorem allSegEnds_eq (sgn : Nat → Int) (fs : List Face) :
    allSegEnds sgn fs = (edgesSorted fs).filter (crossing sgn) := by
  unfold allSegEnds edgesSorted edges segEdges faceEdgesSorted
  induction fs with
  | nil => rfl
  | cons f t ih =>
    simp only [List.flatMap_cons, List.map_append, List.filter_append, ih]
    rfl

/-- **closed loops**: on a closed surface (every undirected edge in exactly two faces) every crossed edge is
    an end of exactly two section segments; an uncrossed edge of none -/
theorem seg_ends_twice (sgn : Nat → Int) (fs : List Face)
    (hclosed : ∀ e ∈ edgesSorted fs, (edgesSorted fs).count e = 2) (e : Edge) (he : e ∈ edgesSorted fs) :
    (allSegEnds sgn fs).count e = if crossing sgn e then 2 else 0 := by
  rw [allSegEnds_eq]
  by_cases hc : crossing sgn e = true
  · rw [List.count_filter hc, hclosed e he]; simp [hc]
  · rw [List.count_eq_zero_of_not_mem (by
      intro hm; exact hc (List.mem_filter.mp hm).2)]
    simp [hc]

end TV.SectionLoops

namespace TV.SectionLoops
open TV.Topology

/-- in general position the code's case table (`basic` = code 4 or 12) selects exactly the triangles with
    two crossed edges -/
theorem isBasic_iff_two (sgn : Nat → Int) (f : Face)
    (h1 : sgn f.1 = 1 ∨ sgn f.1 = -1) (h2 : sgn f.2.1 = 1 ∨ sgn f.2.1 = -1) (h3 : sgn f.2.2 = 1 ∨ sgn f.2.2 = -1) :
    TV.Slice.isBasic (sgn f.1) (sgn f.2.1) (sgn f.2.2) = true ↔ (segEdges sgn f).length = 2 := by
  unfold segEdges faceEdgesSorted
  simp only [List.filter_cons, List.filter_nil, sortEdge_crossing]
  have t1 : TV.Slice.isBasic 1 1 1 = false := by decide
  have t2 : TV.Slice.isBasic 1 1 (-1) = true := by decide
  have t3 : TV.Slice.isBasic 1 (-1) 1 = true := by decide
  have t4 : TV.Slice.isBasic 1 (-1) (-1) = true := by decide
  have t5 : TV.Slice.isBasic (-1) 1 1 = true := by decide
  have t6 : TV.Slice.isBasic (-1) 1 (-1) = true := by decide
  have t7 : TV.Slice.isBasic (-1) (-1) 1 = true := by decide
  have t8 : TV.Slice.isBasic (-1) (-1) (-1) = false := by decide
  rcases h1 with a | a <;> rcases h2 with b | b <;> rcases h3 with c | c <;> rw [a, b, c] <;>
    simp [t1, t2, t3, t4, t5, t6, t7, t8]

end TV.SectionLoops
