/- definitions for C11 over an ordered field -/
import TrimeshVerif.Model.Slice
import TrimeshVerif.Proofs.Remesh
import Mathlib.Algebra.Order.Field.Basic
import Mathlib.Tactic.Positivity
import Mathlib.Tactic.Linarith
namespace TV.Slice
open TV.Mat3 TV.Affine TV.Remesh

variable {K : Type} [Field K]

/-- signed distance (up to the normal's length) of a point to the plane through `o` with normal `n` -/
def sdist (n o p : V3 K) : K := dot n (sub p o)

/-- the crossing point of the edge (a, b): `a + t (b - a)` with `t = d_a / (d_a - d_b)` -/
def edgeParam (n o a b : V3 K) : K := sdist n o a / (sdist n o a - sdist n o b)
def edgePoint (n o a b : V3 K) : V3 K := add a (smul (edgeParam n o a b) (sub b a))

/-- a point on the segment from a to b with parameter s -/
def lerp (a b : V3 K) (s : K) : V3 K := add a (smul s (sub b a))

/-! ### helper lemmas for C11 (additive) -/

section helpers
variable {K : Type} [Field K]

theorem sdist_lerp (n o a b : V3 K) (s : K) :
    sdist n o (lerp a b s) = (1 - s) * sdist n o a + s * sdist n o b := by
  obtain ⟨n1, n2, n3⟩ := n
  obtain ⟨o1, o2, o3⟩ := o
  obtain ⟨a1, a2, a3⟩ := a
  obtain ⟨b1, b2, b3⟩ := b
  simp only [sdist, lerp, dot, add, smul, sub]
  ring

theorem edgePoint_eq_lerp (n o a b : V3 K) : edgePoint n o a b = lerp a b (edgeParam n o a b) := rfl

theorem sdist_edgePoint (n o a b : V3 K) (h : sdist n o a - sdist n o b ≠ 0) :
    sdist n o (edgePoint n o a b) = 0 := by
  rw [edgePoint_eq_lerp, sdist_lerp, edgeParam]
  field_simp
  ring

theorem sdist_shift (n o p : V3 K) (h : K) :
    sdist n (add o (smul h n)) p = sdist n o p - h * dot n n := by
  obtain ⟨n1, n2, n3⟩ := n
  obtain ⟨o1, o2, o3⟩ := o
  obtain ⟨p1, p2, p3⟩ := p
  simp only [sdist, dot, add, smul, sub]
  ring

theorem areaVec_corner (a b c : V3 K) (s u : K) :
    areaVec (a, lerp a b s, lerp a c u) = smul (s * u) (areaVec (a, b, c)) := by
  obtain ⟨a1, a2, a3⟩ := a
  obtain ⟨b1, b2, b3⟩ := b
  obtain ⟨c1, c2, c3⟩ := c
  simp only [areaVec, lerp, cross, add, smul, sub, Prod.mk.injEq]
  refine ⟨?_, ?_, ?_⟩ <;> ring

theorem areaVec_quad1 (a b c : V3 K) (s : K) :
    areaVec (lerp a b s, b, c) = smul (1 - s) (areaVec (a, b, c)) := by
  obtain ⟨a1, a2, a3⟩ := a
  obtain ⟨b1, b2, b3⟩ := b
  obtain ⟨c1, c2, c3⟩ := c
  simp only [areaVec, lerp, cross, add, smul, sub, Prod.mk.injEq]
  refine ⟨?_, ?_, ?_⟩ <;> ring

theorem areaVec_quad2 (a b c : V3 K) (s u : K) :
    areaVec (lerp a b s, c, lerp a c u) = smul (s * (1 - u)) (areaVec (a, b, c)) := by
  obtain ⟨a1, a2, a3⟩ := a
  obtain ⟨b1, b2, b3⟩ := b
  obtain ⟨c1, c2, c3⟩ := c
  simp only [areaVec, lerp, cross, add, smul, sub, Prod.mk.injEq]
  refine ⟨?_, ?_, ?_⟩ <;> ring

theorem areaVec_partition (a b c : V3 K) (s u : K) :
    add (areaVec (a, lerp a b s, lerp a c u))
      (add (areaVec (lerp a b s, b, c)) (areaVec (lerp a b s, c, lerp a c u))) = areaVec (a, b, c) := by
  rw [areaVec_corner, areaVec_quad1, areaVec_quad2]
  obtain ⟨x, y, z⟩ := areaVec (a, b, c)
  simp only [add, smul, Prod.mk.injEq]
  refine ⟨?_, ?_, ?_⟩ <;> ring

theorem vol_partition [CharZero K] (a b c : V3 K) (s u : K) :
    vol a (lerp a b s) (lerp a c u) + (vol (lerp a b s) b c + vol (lerp a b s) c (lerp a c u))
      = vol a b c := by
  obtain ⟨a1, a2, a3⟩ := a
  obtain ⟨b1, b2, b3⟩ := b
  obtain ⟨c1, c2, c3⟩ := c
  simp only [vol, lerp, add, smul, sub, TV.Moments.T0, TV.Moments.det3]
  ring

end helpers

section ordered
variable {K : Type} [Field K] [LinearOrder K] [IsStrictOrderedRing K]

theorem edgeParam_pos_lt_one (n o a b : V3 K) (ha : 0 < sdist n o a) (hb : sdist n o b < 0) :
    0 < edgeParam n o a b ∧ edgeParam n o a b < 1 := by
  unfold edgeParam
  have hd : 0 < sdist n o a - sdist n o b := by linarith
  refine ⟨div_pos ha hd, ?_⟩
  rw [div_lt_one hd]
  linarith

theorem edgeParam_pos_lt_one' (n o a b : V3 K) (ha : sdist n o a < 0) (hb : 0 < sdist n o b) :
    0 < edgeParam n o a b ∧ edgeParam n o a b < 1 := by
  unfold edgeParam
  have hd : sdist n o a - sdist n o b < 0 := by linarith
  refine ⟨div_pos_of_neg_of_neg ha hd, ?_⟩
  rw [div_lt_one_of_neg hd]
  linarith

theorem sdist_lerp_nonneg (n o a b : V3 K) (s : K) (hs0 : 0 ≤ s) (hs1 : s ≤ 1)
    (ha : 0 ≤ sdist n o a) (hb : 0 ≤ sdist n o b) : 0 ≤ sdist n o (lerp a b s) := by
  rw [sdist_lerp]
  have h1 : 0 ≤ 1 - s := by linarith
  exact add_nonneg (mul_nonneg h1 ha) (mul_nonneg hs0 hb)

end ordered
end TV.Slice
