/-
C11 (growth): the pieces `slice_faces_plane` keeps of one triangle (Model/Slice.lean, `sliceTri`) lie on the
positive side, and the pieces kept by the two opposite slices tile the triangle.
-/
import TrimeshVerif.Proofs.SliceRat
namespace TV.Slice

def corners (t : Tri) : List V := [t.1, t.2.1, t.2.2]

/-! ### helpers -/

theorem signS_cases (tol d : Rat) :
    signS tol d = 1 ∧ d < -tol ∨ signS tol d = 0 ∧ -tol ≤ d ∧ d ≤ tol ∨ signS tol d = -1 ∧ tol < d := by
  unfold signS
  by_cases h1 : d < -tol
  · simp [h1]
  · by_cases h2 : tol < d
    · simp [h1, h2]
    · simp [h1, h2]
      exact ⟨not_lt.mp h1, not_lt.mp h2⟩

theorem nth_0 (a b c : V) : nth (a, b, c) 0 = a := rfl
theorem nth_1 (a b c : V) : nth (a, b, c) 1 = b := rfl
theorem nth_2 (a b c : V) : nth (a, b, c) 2 = c := rfl
theorem nth_3 (a b c : V) : nth (a, b, c) 3 = a := rfl
theorem nth_4 (a b c : V) : nth (a, b, c) 4 = b := rfl
theorem nth_5 (a b c : V) : nth (a, b, c) 5 = c := rfl

theorem cut_ok (tol : Rat) (htol : 0 ≤ tol) (n o u v : V) (h : sdistR n o u ≠ sdistR n o v) :
    -tol ≤ sdistR n o (edgePointR n o u v) := by
  rw [edgePoint_on_plane n o u v h]; linarith

/-- **slicing returns only the positive side**: every corner of every kept piece is at most `tol` below the plane -/
theorem slice_kept_positive (tol : Rat) (htol : 0 ≤ tol) (n o : V) (t : Tri) :
    ∀ piece ∈ keptTris t (sliceTri tol n o t), ∀ x ∈ corners piece, -tol ≤ sdistR n o x := by
  obtain ⟨a, b, c⟩ := t
  rcases signS_cases tol (sdistR n o a) with ⟨ea, ha⟩ | ⟨ea, ha, ha'⟩ | ⟨ea, ha⟩ <;>
  rcases signS_cases tol (sdistR n o b) with ⟨eb, hb⟩ | ⟨eb, hb, hb'⟩ | ⟨eb, hb⟩ <;>
  rcases signS_cases tol (sdistR n o c) with ⟨ec, hc⟩ | ⟨ec, hc, hc'⟩ | ⟨ec, hc⟩ <;>
  simp (config := { decide := true }) [sliceTri, nth_0, nth_1, nth_2, nth_3, nth_4, nth_5, ea, eb, ec,
    keptTris, corners, cutPoint, zeros, onEdge, cutQuad, inside, ssum, asum] <;>
  (try and_intros) <;>
  first
  | linarith
  | exact cut_ok _ htol _ _ _ _ (ne_of_gt (by linarith))
  | exact cut_ok _ htol _ _ _ _ (ne_of_lt (by linarith))

/-- a dropped triangle has no corner strictly above the band -/
theorem slice_dropped_negative (tol : Rat) (htol : 0 ≤ tol) (n o : V) (t : Tri)
    (h : sliceTri tol n o t = .dropped) : ∀ x ∈ corners t, sdistR n o x ≤ tol := by
  obtain ⟨a, b, c⟩ := t
  rcases signS_cases tol (sdistR n o a) with ⟨ea, ha⟩ | ⟨ea, ha, ha'⟩ | ⟨ea, ha⟩ <;>
  rcases signS_cases tol (sdistR n o b) with ⟨eb, hb⟩ | ⟨eb, hb, hb'⟩ | ⟨eb, hb⟩ <;>
  rcases signS_cases tol (sdistR n o c) with ⟨ec, hc⟩ | ⟨ec, hc, hc'⟩ | ⟨ec, hc⟩ <;>
  simp (config := { decide := true }) [sliceTri, nth_0, nth_1, nth_2, nth_3, nth_4, ea, eb, ec,
    zeros, onEdge, cutQuad, inside, ssum, asum] at h <;>
  simp only [corners, List.mem_cons, List.not_mem_nil, or_false, forall_eq_or_imp, forall_eq] <;>
  and_intros <;> linarith

/-! ### the two opposite slices -/

theorem sdist_negV (n o x : V) : sdistR (negV n) o x = - sdistR n o x := by
  obtain ⟨n1, n2, n3⟩ := n
  obtain ⟨o1, o2, o3⟩ := o
  obtain ⟨x1, x2, x3⟩ := x
  simp only [sdistR, dotV, subV, negV]
  ring

theorem dot_negV (x n : V) : dotV x (negV n) = - dotV x n := by
  obtain ⟨n1, n2, n3⟩ := n
  obtain ⟨x1, x2, x3⟩ := x
  simp only [dotV, negV]
  ring

/-- the crossing point does not depend on the direction of the normal -/
theorem edgePointR_neg (n o x y : V) : edgePointR (negV n) o x y = edgePointR n o x y := by
  unfold edgePointR
  rw [dot_negV, dot_negV, neg_div_neg_eq]

/-- nor on the direction in which the edge is traversed -/
theorem edgePointR_swap (n o x y : V) (h : sdistR n o x ≠ sdistR n o y) :
    edgePointR n o x y = edgePointR n o y x := by
  have hD : sdistR n o y - sdistR n o x ≠ 0 := fun h0 => h (by linarith)
  have hD' : sdistR n o x - sdistR n o y ≠ 0 := fun h0 => h (by linarith)
  unfold edgePointR
  rw [num_eq n o x, num_eq n o y, den_eq n o x y, den_eq n o y x]
  generalize sdistR n o x = dx at *
  generalize sdistR n o y = dy at *
  obtain ⟨x1, x2, x3⟩ := x
  obtain ⟨y1, y2, y3⟩ := y
  simp only [addV, smulV, subV, Prod.mk.injEq]
  refine ⟨?_, ?_, ?_⟩ <;> field_simp <;> ring

theorem edgePointR_lerp (n o x y : V) : ∃ s : Rat, edgePointR n o x y = addV x (smulV s (subV y x)) :=
  ⟨_, rfl⟩

theorem signS_gen (tol : Rat) (htol : 0 ≤ tol) (n o x : V)
    (h : tol < sdistR n o x ∨ sdistR n o x < -tol) :
    (signS tol (sdistR n o x) = -1 ∧ signS tol (sdistR (negV n) o x) = 1 ∧ tol < sdistR n o x) ∨
    (signS tol (sdistR n o x) = 1 ∧ signS tol (sdistR (negV n) o x) = -1 ∧ sdistR n o x < -tol) := by
  rw [sdist_negV]
  unfold signS
  rcases h with h | h
  · left
    refine ⟨?_, ?_, h⟩
    · rw [if_neg (by intro h'; linarith), if_pos h]
    · rw [if_pos (by linarith)]
  · right
    refine ⟨?_, ?_, h⟩
    · rw [if_pos h]
    · rw [if_neg (by intro h'; linarith), if_pos (by linarith)]

/-- **the two opposite slices partition the triangle**: when no corner is inside the tolerance band, the
    area vectors of the pieces kept for the normal `n` and of those kept for `-n` add up to the triangle's
    (same plane, same orientation: the areas of the two slices add up to the original area) -/
theorem slice_partition (tol : Rat) (htol : 0 ≤ tol) (n o : V) (t : Tri)
    (hgen : ∀ x ∈ corners t, tol < sdistR n o x ∨ sdistR n o x < -tol) :
    addV (sumV ((keptTris t (sliceTri tol n o t)).map areaVecR))
         (sumV ((keptTris t (sliceTri tol (negV n) o t)).map areaVecR)) = areaVecR t := by
  obtain ⟨a, b, c⟩ := t
  simp only [corners, List.mem_cons, List.not_mem_nil, or_false, forall_eq_or_imp, forall_eq] at hgen
  obtain ⟨ga, gb, gc⟩ := hgen
  rcases signS_gen tol htol n o a ga with ⟨ea, ea', ha⟩ | ⟨ea, ea', ha⟩ <;>
  rcases signS_gen tol htol n o b gb with ⟨eb, eb', hb⟩ | ⟨eb, eb', hb⟩ <;>
  rcases signS_gen tol htol n o c gc with ⟨ec, ec', hc⟩ | ⟨ec, ec', hc⟩ <;>
  simp (config := { decide := true }) [sliceTri, nth_0, nth_1, nth_2, nth_3, nth_4, nth_5, ea, eb, ec,
    ea', eb', ec', keptTris, cutPoint, zeros, onEdge, cutQuad, inside, ssum, asum, edgePointR_neg] <;>
  (obtain ⟨s1, e1⟩ := edgePointR_lerp n o a b
   obtain ⟨s2, e2⟩ := edgePointR_lerp n o b c
   obtain ⟨s3, e3⟩ := edgePointR_lerp n o c a
   obtain ⟨a1, a2, a3⟩ := a
   obtain ⟨b1, b2, b3⟩ := b
   obtain ⟨c1, c2, c3⟩ := c
   simp only [e1, e2, e3, sumV, List.foldl, addV, areaVecR, crossV, subV, smulV, Prod.mk.injEq]
   refine ⟨?_, ?_, ?_⟩ <;> ring)

/-! ### orientation of the pieces -/

/-- the ends of the edge are strictly on opposite sides of the band -/
def Opp (tol : Rat) (n o u v : V) : Prop :=
  sdistR n o u < -tol ∧ tol < sdistR n o v ∨ sdistR n o v < -tol ∧ tol < sdistR n o u

macro "opp_tac" : tactic =>
  `(tactic| first
    | exact Or.inl ⟨by assumption, by assumption⟩
    | exact Or.inr ⟨by assumption, by assumption⟩)

theorem opp_between (tol : Rat) (htol : 0 ≤ tol) (n o u v : V) (h : Opp tol n o u v) :
    ∃ s : Rat, 0 < s ∧ s < 1 ∧ edgePointR n o u v = addV u (smulV s (subV v u)) := by
  apply edgePoint_between
  rcases h with ⟨h1, h2⟩ | ⟨h1, h2⟩
  · exact Or.inl ⟨by linarith, by linarith⟩
  · exact Or.inr ⟨by linarith, by linarith⟩

theorem areaVecR_rot (a b c : V) : areaVecR (b, c, a) = areaVecR (a, b, c) := by
  obtain ⟨a1, a2, a3⟩ := a
  obtain ⟨b1, b2, b3⟩ := b
  obtain ⟨c1, c2, c3⟩ := c
  simp only [areaVecR, crossV, subV, Prod.mk.injEq]
  refine ⟨?_, ?_, ?_⟩ <;> ring

/-- the corner piece `(a, P_ab, P_ca)` -/
theorem piece_corner (tol : Rat) (htol : 0 ≤ tol) (n o a b c T : V) (hT : areaVecR (a, b, c) = T)
    (hab : Opp tol n o a b) (hca : Opp tol n o c a) :
    ∃ k : Rat, 0 ≤ k ∧ k ≤ 1 ∧
      areaVecR (a, edgePointR n o a b, edgePointR n o c a) = smulV k T := by
  obtain ⟨s, hs0, hs1, es⟩ := opp_between tol htol n o a b hab
  obtain ⟨u, hu0, hu1, eu⟩ := opp_between tol htol n o c a hca
  refine ⟨s * (1 - u), by nlinarith, by nlinarith, ?_⟩
  rw [es, eu, ← hT]
  obtain ⟨a1, a2, a3⟩ := a
  obtain ⟨b1, b2, b3⟩ := b
  obtain ⟨c1, c2, c3⟩ := c
  simp only [addV, areaVecR, crossV, subV, smulV, Prod.mk.injEq]
  refine ⟨?_, ?_, ?_⟩ <;> ring

/-- the first half `(b, c, P_ca)` of the quad left when corner `a` is cut away -/
theorem piece_quad1 (tol : Rat) (htol : 0 ≤ tol) (n o a b c T : V) (hT : areaVecR (a, b, c) = T)
    (hca : Opp tol n o c a) :
    ∃ k : Rat, 0 ≤ k ∧ k ≤ 1 ∧ areaVecR (b, c, edgePointR n o c a) = smulV k T := by
  obtain ⟨u, hu0, hu1, eu⟩ := opp_between tol htol n o c a hca
  refine ⟨u, le_of_lt hu0, le_of_lt hu1, ?_⟩
  rw [eu, ← hT]
  obtain ⟨a1, a2, a3⟩ := a
  obtain ⟨b1, b2, b3⟩ := b
  obtain ⟨c1, c2, c3⟩ := c
  simp only [addV, areaVecR, crossV, subV, smulV, Prod.mk.injEq]
  refine ⟨?_, ?_, ?_⟩ <;> ring

/-- the second half `(P_ca, P_ab, b)` of that quad -/
theorem piece_quad2 (tol : Rat) (htol : 0 ≤ tol) (n o a b c T : V) (hT : areaVecR (a, b, c) = T)
    (hab : Opp tol n o a b) (hca : Opp tol n o c a) :
    ∃ k : Rat, 0 ≤ k ∧ k ≤ 1 ∧
      areaVecR (edgePointR n o c a, edgePointR n o a b, b) = smulV k T := by
  obtain ⟨s, hs0, hs1, es⟩ := opp_between tol htol n o a b hab
  obtain ⟨u, hu0, hu1, eu⟩ := opp_between tol htol n o c a hca
  refine ⟨(1 - s) * (1 - u), by nlinarith, by nlinarith, ?_⟩
  rw [es, eu, ← hT]
  obtain ⟨a1, a2, a3⟩ := a
  obtain ⟨b1, b2, b3⟩ := b
  obtain ⟨c1, c2, c3⟩ := c
  simp only [addV, areaVecR, crossV, subV, smulV, Prod.mk.injEq]
  refine ⟨?_, ?_, ?_⟩ <;> ring

theorem piece_whole (T : V) : ∃ k : Rat, 0 ≤ k ∧ k ≤ 1 ∧ T = smulV k T := by
  refine ⟨1, by decide, le_refl _, ?_⟩
  obtain ⟨t1, t2, t3⟩ := T
  simp [smulV]

/-- every kept piece is coplanar with and wound like the triangle: its area vector is a non-negative
    multiple of the triangle's -/
theorem slice_pieces_oriented (tol : Rat) (htol : 0 ≤ tol) (n o : V) (t : Tri)
    (hgen : ∀ x ∈ corners t, tol < sdistR n o x ∨ sdistR n o x < -tol) :
    ∀ piece ∈ keptTris t (sliceTri tol n o t), ∃ k : Rat, 0 ≤ k ∧ k ≤ 1 ∧ areaVecR piece = smulV k (areaVecR t) := by
  obtain ⟨a, b, c⟩ := t
  simp only [corners, List.mem_cons, List.not_mem_nil, or_false, forall_eq_or_imp, forall_eq] at hgen
  obtain ⟨ga, gb, gc⟩ := hgen
  have r1 := areaVecR_rot a b c
  have r2 := areaVecR_rot b c a
  rw [r1] at r2
  rcases signS_gen tol htol n o a ga with ⟨ea, -, ha⟩ | ⟨ea, -, ha⟩ <;>
  rcases signS_gen tol htol n o b gb with ⟨eb, -, hb⟩ | ⟨eb, -, hb⟩ <;>
  rcases signS_gen tol htol n o c gc with ⟨ec, -, hc⟩ | ⟨ec, -, hc⟩ <;>
  simp (config := { decide := true }) [sliceTri, nth_0, nth_1, nth_2, nth_3, nth_4, nth_5, ea, eb, ec,
    keptTris, cutPoint, zeros, onEdge, cutQuad, inside, ssum, asum] <;>
  (try and_intros) <;>
  first
  | exact piece_whole _
  | exact piece_corner tol htol n o a b c _ rfl (by opp_tac) (by opp_tac)
  | exact piece_corner tol htol n o b c a _ r1 (by opp_tac) (by opp_tac)
  | exact piece_corner tol htol n o c a b _ r2 (by opp_tac) (by opp_tac)
  | exact piece_quad1 tol htol n o a b c _ rfl (by opp_tac)
  | exact piece_quad1 tol htol n o b c a _ r1 (by opp_tac)
  | exact piece_quad1 tol htol n o c a b _ r2 (by opp_tac)
  | exact piece_quad2 tol htol n o a b c _ rfl (by opp_tac) (by opp_tac)
  | exact piece_quad2 tol htol n o b c a _ r1 (by opp_tac) (by opp_tac)
  | exact piece_quad2 tol htol n o c a b _ r2 (by opp_tac) (by opp_tac)

end TV.Slice
