/-
C11 (growth): the per-triangle section segment of `mesh_plane` over exact rationals (Model/Slice.lean,
`sectionTri`) lies on the plane (within the tolerance band used for the signs) and on the triangle's boundary.
-/
import TrimeshVerif.Model.Slice
import Mathlib.Tactic.Ring
import Mathlib.Tactic.Linarith
import Mathlib.Tactic.FieldSimp
import Mathlib.Algebra.Order.Field.Rat
import Mathlib.Algebra.Order.Field.Basic
namespace TV.Slice

/-! ### helpers -/

theorem signR_cases (tol d : Rat) :
    signR tol d = -1 ∧ d < -tol ∨ signR tol d = 0 ∧ -tol ≤ d ∧ d ≤ tol ∨ signR tol d = 1 ∧ tol < d := by
  unfold signR
  by_cases h1 : d < -tol
  · simp [h1]
  · by_cases h2 : tol < d
    · simp [h1, h2]
    · simp [h1, h2]
      exact ⟨not_lt.mp h1, not_lt.mp h2⟩

/-- the parameter of the crossing point along `a → b` -/
def edgeParamR (n o a b : V) : Rat := dotV (subV o a) n / dotV (subV b a) n

theorem edgePointR_eq (n o a b : V) :
    edgePointR n o a b = addV a (smulV (edgeParamR n o a b) (subV b a)) := rfl

theorem num_eq (n o a : V) : dotV (subV o a) n = - sdistR n o a := by
  obtain ⟨n1, n2, n3⟩ := n
  obtain ⟨o1, o2, o3⟩ := o
  obtain ⟨a1, a2, a3⟩ := a
  simp only [sdistR, dotV, subV]
  ring

theorem den_eq (n o a b : V) : dotV (subV b a) n = sdistR n o b - sdistR n o a := by
  obtain ⟨n1, n2, n3⟩ := n
  obtain ⟨o1, o2, o3⟩ := o
  obtain ⟨a1, a2, a3⟩ := a
  obtain ⟨b1, b2, b3⟩ := b
  simp only [sdistR, dotV, subV]
  ring

theorem sdist_affine (n o a b : V) (s : Rat) :
    sdistR n o (addV a (smulV s (subV b a))) = sdistR n o a + s * dotV (subV b a) n := by
  obtain ⟨n1, n2, n3⟩ := n
  obtain ⟨o1, o2, o3⟩ := o
  obtain ⟨a1, a2, a3⟩ := a
  obtain ⟨b1, b2, b3⟩ := b
  simp only [sdistR, dotV, subV, addV, smulV]
  ring

/-- the crossing point of an edge whose ends are strictly on opposite sides is exactly on the plane -/
theorem edgePoint_on_plane (n o a b : V) (h : sdistR n o a ≠ sdistR n o b) :
    sdistR n o (edgePointR n o a b) = 0 := by
  have hD : dotV (subV b a) n ≠ 0 := by
    rw [den_eq n o a b]
    intro h0
    exact h (by linarith)
  rw [edgePointR_eq, sdist_affine, edgeParamR, div_mul_cancel₀ _ hD, num_eq]
  ring

/-- and strictly between the two ends: `a + s (b - a)` with `0 < s < 1` -/
theorem edgePoint_between (n o a b : V) (h : sdistR n o a < 0 ∧ 0 < sdistR n o b ∨ sdistR n o b < 0 ∧ 0 < sdistR n o a) :
    ∃ s : Rat, 0 < s ∧ s < 1 ∧ edgePointR n o a b = addV a (smulV s (subV b a)) := by
  refine ⟨edgeParamR n o a b, ?_, ?_, edgePointR_eq n o a b⟩
  · unfold edgeParamR
    rw [num_eq, den_eq n o a b]
    rcases h with ⟨h1, h2⟩ | ⟨h1, h2⟩
    · exact div_pos (by linarith) (by linarith)
    · exact div_pos_of_neg_of_neg (by linarith) (by linarith)
  · unfold edgeParamR
    rw [num_eq, den_eq n o a b]
    rcases h with ⟨h1, h2⟩ | ⟨h1, h2⟩
    · rw [div_lt_one (by linarith)]
      linarith
    · rw [div_lt_one_of_neg (by linarith)]
      linarith

/-- what the three handlers emit: a corner inside the tolerance band, or the crossing point of an edge whose
    ends are strictly on opposite sides of the band -/
def Good (tol : Rat) (n o : V) (t : Tri) (x : V) : Prop :=
  (∃ u, u ∈ [t.1, t.2.1, t.2.2] ∧ -tol ≤ sdistR n o u ∧ sdistR n o u ≤ tol ∧ x = u) ∨
  (∃ u v, u ∈ [t.1, t.2.1, t.2.2] ∧ v ∈ [t.1, t.2.1, t.2.2] ∧
    (sdistR n o u < -tol ∧ tol < sdistR n o v ∨ sdistR n o v < -tol ∧ tol < sdistR n o u) ∧
    x = edgePointR n o u v)

theorem good_corner (tol : Rat) (n o : V) (t : Tri) (u : V) (hu : u ∈ [t.1, t.2.1, t.2.2])
    (h1 : -tol ≤ sdistR n o u) (h2 : sdistR n o u ≤ tol) : Good tol n o t u :=
  Or.inl ⟨u, hu, h1, h2, rfl⟩

theorem good_edge (tol : Rat) (n o : V) (t : Tri) (u v : V) (hu : u ∈ [t.1, t.2.1, t.2.2])
    (hv : v ∈ [t.1, t.2.1, t.2.2])
    (h : sdistR n o u < -tol ∧ tol < sdistR n o v ∨ sdistR n o v < -tol ∧ tol < sdistR n o u) :
    Good tol n o t (edgePointR n o u v) :=
  Or.inr ⟨u, v, hu, hv, h, rfl⟩

theorem section_good (tol : Rat) (n o : V) (t : Tri) (p q : V)
    (h : sectionTri tol n o t = some (p, q)) : Good tol n o t p ∧ Good tol n o t q := by
  obtain ⟨a, b, c⟩ := t
  unfold sectionTri at h
  simp only [] at h
  rcases signR_cases tol (sdistR n o a) with ⟨ea, ha⟩ | ⟨ea, ha, ha'⟩ | ⟨ea, ha⟩ <;>
  rcases signR_cases tol (sdistR n o b) with ⟨eb, hb⟩ | ⟨eb, hb, hb'⟩ | ⟨eb, hb⟩ <;>
  rcases signR_cases tol (sdistR n o c) with ⟨ec, hc⟩ | ⟨ec, hc, hc'⟩ | ⟨ec, hc⟩ <;>
  rw [ea, eb, ec] at h <;>
  simp (config := { decide := true }) at h <;>
  obtain ⟨rfl, rfl⟩ := h <;>
  refine ⟨?_, ?_⟩ <;>
  first
  | exact good_corner _ _ _ _ _ (by simp) (by assumption) (by assumption)
  | exact good_edge _ _ _ _ _ _ (by simp) (by simp) (Or.inl ⟨by assumption, by assumption⟩)
  | exact good_edge _ _ _ _ _ _ (by simp) (by simp) (Or.inr ⟨by assumption, by assumption⟩)

theorem absR_le (tol x : Rat) (h1 : -tol ≤ x) (h2 : x ≤ tol) : absR x ≤ tol := by
  unfold absR
  split <;> linarith

theorem good_on_plane (tol : Rat) (htol : 0 ≤ tol) (n o : V) (t : Tri) (x : V) (h : Good tol n o t x) :
    absR (sdistR n o x) ≤ tol := by
  rcases h with ⟨u, _, h1, h2, rfl⟩ | ⟨u, v, _, _, h, rfl⟩
  · exact absR_le _ _ h1 h2
  · have hne : sdistR n o u ≠ sdistR n o v := by
      rcases h with ⟨h1, h2⟩ | ⟨h1, h2⟩
      · exact ne_of_lt (by linarith)
      · exact ne_of_gt (by linarith)
    rw [edgePoint_on_plane n o u v hne]
    exact absR_le _ _ (by linarith) htol

theorem good_on_triangle (tol : Rat) (htol : 0 ≤ tol) (n o : V) (t : Tri) (x : V) (h : Good tol n o t x) :
    ∃ (u v : V) (s : Rat), u ∈ [t.1, t.2.1, t.2.2] ∧ v ∈ [t.1, t.2.1, t.2.2] ∧ 0 ≤ s ∧ s ≤ 1 ∧
      x = addV u (smulV s (subV v u)) := by
  rcases h with ⟨u, hu, _, _, rfl⟩ | ⟨u, v, hu, hv, h, rfl⟩
  · refine ⟨x, x, 0, hu, hu, le_refl _, by decide, ?_⟩
    obtain ⟨x1, x2, x3⟩ := x
    simp [addV, smulV, subV]
  · have hb : sdistR n o u < 0 ∧ 0 < sdistR n o v ∨ sdistR n o v < 0 ∧ 0 < sdistR n o u := by
      rcases h with ⟨h1, h2⟩ | ⟨h1, h2⟩
      · exact Or.inl ⟨by linarith, by linarith⟩
      · exact Or.inr ⟨by linarith, by linarith⟩
    obtain ⟨s, hs0, hs1, hs⟩ := edgePoint_between n o u v hb
    exact ⟨u, v, s, hu, hv, le_of_lt hs0, le_of_lt hs1, hs⟩

/-- **every endpoint the code emits lies on the plane up to the sign tolerance** -/
theorem section_on_plane (tol : Rat) (htol : 0 ≤ tol) (n o : V) (t : Tri) (p q : V)
    (h : sectionTri tol n o t = some (p, q)) :
    absR (sdistR n o p) ≤ tol ∧ absR (sdistR n o q) ≤ tol := by
  obtain ⟨hp, hq⟩ := section_good tol n o t p q h
  exact ⟨good_on_plane tol htol n o t p hp, good_on_plane tol htol n o t q hq⟩

/-- **and on the boundary of the triangle**: it is a corner, or a point of an edge -/
theorem section_on_triangle (tol : Rat) (htol : 0 ≤ tol) (n o : V) (t : Tri) (p q : V)
    (h : sectionTri tol n o t = some (p, q)) :
    ∀ x ∈ [p, q], ∃ (u v : V) (s : Rat), u ∈ [t.1, t.2.1, t.2.2] ∧ v ∈ [t.1, t.2.1, t.2.2] ∧ 0 ≤ s ∧ s ≤ 1 ∧
      x = addV u (smulV s (subV v u)) := by
  obtain ⟨hp, hq⟩ := section_good tol n o t p q h
  intro x hx
  simp only [List.mem_cons, List.not_mem_nil, or_false] at hx
  rcases hx with rfl | rfl
  · exact good_on_triangle tol htol n o t _ hp
  · exact good_on_triangle tol htol n o t _ hq

theorem signR_pos (tol d : Rat) (htol : 0 ≤ tol) (h : tol < d) : signR tol d = 1 := by
  unfold signR
  rw [if_neg (by intro h'; linarith), if_pos h]

theorem signR_neg (tol d : Rat) (h : d < -tol) : signR tol d = -1 := by
  unfold signR
  rw [if_pos h]

/-- a triangle whose corners are all strictly on one side contributes nothing -/
theorem section_none_one_side (tol : Rat) (n o : V) (t : Tri)
    (h : (tol < sdistR n o t.1 ∧ tol < sdistR n o t.2.1 ∧ tol < sdistR n o t.2.2) ∨
         (sdistR n o t.1 < -tol ∧ sdistR n o t.2.1 < -tol ∧ sdistR n o t.2.2 < -tol)) (htol : 0 ≤ tol) :
    sectionTri tol n o t = none := by
  unfold sectionTri
  simp only []
  rcases h with ⟨h1, h2, h3⟩ | ⟨h1, h2, h3⟩
  · rw [signR_pos _ _ htol h1, signR_pos _ _ htol h2, signR_pos _ _ htol h3]
    rfl
  · rw [signR_neg _ _ h1, signR_neg _ _ h2, signR_neg _ _ h3]
    rfl

end TV.Slice
