import TrimeshVerif.Model.SortRuns
namespace TV

variable {α : Type} [DecidableEq α]

/-- what the theorems need of the comparison used for sorting -/
structure IsOrder (le : α → α → Bool) : Prop where
  total : ∀ a b, le a b || le b a
  trans : ∀ a b c, le a b → le b c → le a c
  antisymm : ∀ a b, le a b → le b a → a = b

omit [DecidableEq α] in
theorem IsOrder.refl {le : α → α → Bool} (h : IsOrder le) (a : α) : le a a = true := by
  have := h.total a a; simpa using this

theorem kiLe_total {le : α → α → Bool} (h : IsOrder le) (a b : KI α) : kiLe le a b || kiLe le b a := by
  unfold kiLe
  by_cases hab : a.1 = b.1
  · have hba : b.1 = a.1 := hab.symm
    simp only [hab, if_true]
    simp only [Bool.or_eq_true, decide_eq_true_eq]; omega
  · have hba : ¬ b.1 = a.1 := fun h => hab h.symm
    simp only [hab, hba, if_false]; exact h.total _ _

theorem kiLe_trans {le : α → α → Bool} (h : IsOrder le) (a b c : KI α) :
    kiLe le a b → kiLe le b c → kiLe le a c := by
  intro h1 h2
  unfold kiLe at h1 h2 ⊢
  by_cases hab : a.1 = b.1 <;> by_cases hbc : b.1 = c.1
  · have hac : a.1 = c.1 := hab.trans hbc
    rw [if_pos hab] at h1; rw [if_pos hbc] at h2; rw [if_pos hac]
    simp only [decide_eq_true_eq] at h1 h2 ⊢; omega
  · have hac : ¬ a.1 = c.1 := fun e => hbc (hab.symm.trans e)
    rw [if_neg hbc] at h2; rw [if_neg hac, hab]; exact h2
  · have hac : ¬ a.1 = c.1 := fun e => hab (e.trans hbc.symm)
    rw [if_neg hab] at h1; rw [if_neg hac, ← hbc]; exact h1
  · rw [if_neg hab] at h1; rw [if_neg hbc] at h2
    by_cases hac : a.1 = c.1
    · exfalso
      rw [← hac] at h2
      exact hab (h.antisymm _ _ h1 h2)
    · rw [if_neg hac]; exact h.trans _ _ _ h1 h2

theorem kiLe_key {le : α → α → Bool} (h : IsOrder le) {a b : KI α} (hab : kiLe le a b) : le a.1 b.1 := by
  unfold kiLe at hab
  by_cases e : a.1 = b.1
  · rw [e]; exact h.refl _
  · simpa [e] using hab

/-! ### runs -/

theorem runs_flatten : ∀ l : List (KI α), (runs l).flatten = l
  | [] => rfl
  | x :: xs => by
    have ih := runs_flatten xs
    unfold runs
    split
    · rename_i he; rw [he] at ih; simp at ih; simp [← ih]
    · rename_i gs he; rw [he] at ih; simp at ih; simp [← ih]
    · rename_i y g gs he
      rw [he] at ih
      split <;> simp [← ih]

theorem runs_ne_nil : ∀ (l : List (KI α)) (g), g ∈ runs l → g ≠ []
  | [], g, h => by simp [runs] at h
  | x :: xs, g, h => by
    have ih := runs_ne_nil xs
    unfold runs at h
    split at h
    · simp at h; simp [h]
    · rename_i gs he
      exact absurd rfl (ih [] (by rw [he]; simp))
    · rename_i y g' gs he
      split at h
      · simp at h
        rcases h with h | h
        · simp [h]
        · exact ih g (by rw [he]; simp [h])
      · simp at h
        rcases h with h | h | h
        · simp [h]
        · simp [h]
        · exact ih g (by rw [he]; simp [h])

theorem runs_key_const : ∀ (l : List (KI α)) (g), g ∈ runs l → ∀ a ∈ g, ∀ b ∈ g, a.1 = b.1
  | [], g, h => by simp [runs] at h
  | x :: xs, g, h => by
    have ih := runs_key_const xs
    unfold runs at h
    split at h
    · simp at h; subst h; intro a ha b hb; simp at ha hb; rw [ha, hb]
    · rename_i gs he
      simp at h
      rcases h with h | h
      · subst h; intro a ha b hb; simp at ha hb; rw [ha, hb]
      · exact ih g (by rw [he]; simp [h])
    · rename_i y g' gs he
      have hyg : ∀ a ∈ (y :: g'), ∀ b ∈ (y :: g'), a.1 = b.1 := ih (y :: g') (by rw [he]; simp)
      split at h
      · rename_i hxy
        simp only [List.mem_cons] at h
        rcases h with h | h
        · subst h
          intro a ha b hb
          have ha' : a.1 = y.1 := by
            rcases List.mem_cons.mp ha with ha | ha
            · rw [ha]; exact hxy
            · exact hyg a ha y (by simp)
          have hb' : b.1 = y.1 := by
            rcases List.mem_cons.mp hb with hb | hb
            · rw [hb]; exact hxy
            · exact hyg b hb y (by simp)
          rw [ha', hb']
        · exact ih g (by rw [he]; simp [h])
      · simp only [List.mem_cons] at h
        rcases h with h | h | h
        · subst h; intro a ha b hb; simp at ha hb; rw [ha, hb]
        · subst h; exact hyg
        · exact ih g (by rw [he]; simp [h])

/-- in a list sorted by key, different runs carry different keys -/
theorem runs_keys_distinct {le : α → α → Bool} (h : IsOrder le) :
    ∀ (l : List (KI α)), l.Pairwise (fun a b => le a.1 b.1) →
      (runs l).Pairwise (fun g g' => ∀ a ∈ g, ∀ b ∈ g', a.1 ≠ b.1)
  | [], _ => by simp [runs]
  | x :: xs, hs => by
    have hs' := List.pairwise_cons.mp hs
    have ih := runs_keys_distinct h xs hs'.2
    have hfl := runs_flatten xs
    have hkc := runs_key_const xs
    unfold runs
    split
    · simp
    · rename_i gs he
      exact absurd rfl (runs_ne_nil xs [] (by rw [he]; simp))
    · rename_i y g gs he
      rw [he] at ih hfl
      have ih' := List.pairwise_cons.mp ih
      have hyxs : y ∈ xs := by rw [← hfl]; simp
      have hmem : ∀ g' ∈ gs, ∀ b ∈ g', b ∈ xs := by
        intro g' hg' b hb; rw [← hfl]; simp only [List.flatten_cons, List.mem_append]; right; exact List.mem_flatten.mpr ⟨g', hg', hb⟩
      have hmemg : ∀ b ∈ (y :: g), b ∈ xs := by
        intro b hb; rw [← hfl]
        simp only [List.flatten_cons, List.mem_append]; left; exact hb
      split
      · rename_i hxy
        refine List.pairwise_cons.mpr ⟨?_, ih'.2⟩
        intro g' hg' a ha b hb
        have hy := ih'.1 g' hg' y (by simp) b hb
        rcases List.mem_cons.mp ha with ha | ha
        · rw [ha, hxy]; exact hy
        · exact ih'.1 g' hg' a ha b hb
      · rename_i hxy
        refine List.pairwise_cons.mpr ⟨?_, ih⟩
        intro g' hg' a ha b hb
        simp at ha; subst ha
        intro hab
        -- b ∈ xs with key of a; y is the head of xs
        have hbxs : b ∈ xs := by
          rcases List.mem_cons.mp hg' with e | e
          · subst e; exact hmemg b hb
          · exact hmem g' e b hb
        have h1 : le a.1 y.1 = true := hs'.1 y hyxs
        -- y ≤ b since y is first of xs (or equal keys)
        have h2 : le y.1 b.1 = true := by
          rcases List.mem_cons.mp hg' with e | e
          · subst e
            have := hkc (y :: g) (by rw [he]; simp) y (by simp) b hb
            rw [this]; exact h.refl _
          · -- xs = y :: g ++ ... so y before b
            have hx : xs = y :: (g ++ gs.flatten) := by rw [← hfl]; simp
            rw [hx] at hs'
            have := (List.pairwise_cons.mp hs'.2).1 b (by
              simp only [List.mem_append]; right
              exact List.mem_flatten.mpr ⟨g', e, hb⟩)
            exact this
        rw [← hab] at h2
        exact hxy (h.antisymm _ _ h1 h2)

/-! ### sortKI / groupsOf -/

theorem sortKI_perm (le : α → α → Bool) (vs : List α) : (sortKI le vs).Perm vs.zipIdx :=
  List.mergeSort_perm _ _

theorem sortKI_sorted {le : α → α → Bool} (h : IsOrder le) (vs : List α) :
    (sortKI le vs).Pairwise (fun a b => kiLe le a b) :=
  List.pairwise_mergeSort (le := kiLe le) (fun a b c => kiLe_trans h a b c) (kiLe_total h) _

theorem mem_sortKI {le : α → α → Bool} {vs : List α} {a : KI α} :
    a ∈ sortKI le vs ↔ vs[a.2]? = some a.1 := by
  unfold sortKI
  rw [List.mem_mergeSort]
  obtain ⟨v, i⟩ := a
  simp [List.mem_zipIdx_iff_getElem?]

/-- P1: the groups together are a permutation of all indices -/
theorem groupsOf_flatten_perm (le : α → α → Bool) (vs : List α) :
    (groupsOf le vs).flatten.Perm (List.range vs.length) := by
  unfold groupsOf
  have h1 : ((runs (sortKI le vs)).map (fun g => g.map (·.2))).flatten
      = ((runs (sortKI le vs)).flatten).map (·.2) := by
    rw [List.map_flatten]
  rw [h1, runs_flatten]
  have h2 := (sortKI_perm le vs).map (·.2)
  refine h2.trans ?_
  have : (vs.zipIdx).map (·.2) = List.range vs.length := by
    rw [List.zipIdx_map_snd, List.range_eq_range']
  rw [this]

/-- P2: indices in one group carry equal values -/
theorem groupsOf_same {le : α → α → Bool} (vs : List α) (g : List Nat) (hg : g ∈ groupsOf le vs)
    (i j : Nat) (hi : i ∈ g) (hj : j ∈ g) : vs[i]? = vs[j]? := by
  unfold groupsOf at hg
  obtain ⟨r, hr, rfl⟩ := List.mem_map.mp hg
  obtain ⟨a, ha, rfl⟩ := List.mem_map.mp hi
  obtain ⟨b, hb, rfl⟩ := List.mem_map.mp hj
  have hk := runs_key_const _ r hr a ha b hb
  have hma : a ∈ sortKI le vs := by rw [← runs_flatten (sortKI le vs)]; exact List.mem_flatten.mpr ⟨r, hr, ha⟩
  have hmb : b ∈ sortKI le vs := by rw [← runs_flatten (sortKI le vs)]; exact List.mem_flatten.mpr ⟨r, hr, hb⟩
  rw [mem_sortKI.mp hma, mem_sortKI.mp hmb, hk]

/-- P3: indices in different groups carry different values -/
theorem groupsOf_distinct {le : α → α → Bool} (h : IsOrder le) (vs : List α) :
    (groupsOf le vs).Pairwise (fun g g' => ∀ i ∈ g, ∀ j ∈ g', vs[i]? ≠ vs[j]?) := by
  unfold groupsOf
  rw [List.pairwise_map]
  have hs : (sortKI le vs).Pairwise (fun a b => le a.1 b.1) :=
    (sortKI_sorted h vs).imp (fun hab => kiLe_key h hab)
  have hd := runs_keys_distinct h _ hs
  have hsub : ∀ r ∈ runs (sortKI le vs), ∀ a ∈ r, a ∈ sortKI le vs := by
    intro r hr a ha; rw [← runs_flatten (sortKI le vs)]; exact List.mem_flatten.mpr ⟨r, hr, ha⟩
  refine List.Pairwise.imp_of_mem ?_ hd
  intro r r' hr hr' hrr' i hi j hj
  obtain ⟨a, ha, rfl⟩ := List.mem_map.mp hi
  obtain ⟨b, hb, rfl⟩ := List.mem_map.mp hj
  rw [mem_sortKI.mp (hsub r hr a ha), mem_sortKI.mp (hsub r' hr' b hb)]
  intro e
  exact hrr' a ha b hb (Option.some.inj e)

theorem groupsOf_ne_nil (le : α → α → Bool) (vs : List α) (g : List Nat) (hg : g ∈ groupsOf le vs) : g ≠ [] := by
  unfold groupsOf at hg
  obtain ⟨r, hr, rfl⟩ := List.mem_map.mp hg
  have := runs_ne_nil _ r hr
  simpa using this

/-- sublists of a kiLe-sorted list: within a run (equal keys) indices ascend -/
theorem groupsOf_ascending {le : α → α → Bool} (h : IsOrder le) (vs : List α) (g : List Nat)
    (hg : g ∈ groupsOf le vs) : g.Pairwise (· ≤ ·) := by
  unfold groupsOf at hg
  obtain ⟨r, hr, rfl⟩ := List.mem_map.mp hg
  rw [List.pairwise_map]
  have hsort := sortKI_sorted h vs
  have hsub : r.Sublist (sortKI le vs) := by
    have := runs_flatten (sortKI le vs)
    rw [← this]
    exact List.sublist_flatten_of_mem hr
  have hr_sorted := hsort.sublist hsub
  have hk := runs_key_const _ r hr
  refine List.Pairwise.imp_of_mem ?_ hr_sorted
  intro a b ha hb hab
  have e := hk a ha b hb
  unfold kiLe at hab
  simpa [e] using hab

end TV

namespace TV
variable {α : Type} [DecidableEq α]

/-- `gs` is a grouping of the indices of `vs` into the classes of equal values
    (order of the groups irrelevant; every fact here is invariant under permuting `gs`) -/
structure IsGrouping (vs : List α) (gs : List (List Nat)) : Prop where
  perm : gs.flatten.Perm (List.range vs.length)
  same : ∀ g ∈ gs, ∀ i ∈ g, ∀ j ∈ g, vs[i]? = vs[j]?
  distinct : gs.Pairwise (fun g g' => ∀ i ∈ g, ∀ j ∈ g', vs[i]? ≠ vs[j]?)
  ne_nil : ∀ g ∈ gs, g ≠ []
  ascending : ∀ g ∈ gs, g.Pairwise (· ≤ ·)

theorem groupsOf_isGrouping {le : α → α → Bool} (h : IsOrder le) (vs : List α) :
    IsGrouping vs (groupsOf le vs) :=
  ⟨groupsOf_flatten_perm le vs, fun g hg i hi j hj => groupsOf_same vs g hg i j hi hj,
   groupsOf_distinct h vs, groupsOf_ne_nil le vs, groupsOf_ascending h vs⟩

theorem IsGrouping.of_perm {vs : List α} {gs gs' : List (List Nat)} (h : IsGrouping vs gs)
    (p : gs.Perm gs') : IsGrouping vs gs' where
  perm := (p.symm.flatten).trans h.perm
  same := fun g hg => h.same g (p.mem_iff.mpr hg)
  distinct := p.pairwise h.distinct (fun {x y} hxy i hi j hj => (hxy j hj i hi).symm)
  ne_nil := fun g hg => h.ne_nil g (p.mem_iff.mpr hg)
  ascending := fun g hg => h.ascending g (p.mem_iff.mpr hg)

theorem IsGrouping.covers {vs : List α} {gs : List (List Nat)} (h : IsGrouping vs gs)
    {i : Nat} (hi : i < vs.length) : ∃ g ∈ gs, i ∈ g := by
  have : i ∈ gs.flatten := h.perm.mem_iff.mpr (List.mem_range.mpr hi)
  obtain ⟨g, hg, hig⟩ := List.mem_flatten.mp this
  exact ⟨g, hg, hig⟩

theorem IsGrouping.mem_lt {vs : List α} {gs : List (List Nat)} (h : IsGrouping vs gs)
    {g : List Nat} (hg : g ∈ gs) {i : Nat} (hi : i ∈ g) : i < vs.length :=
  List.mem_range.mp (h.perm.mem_iff.mp (List.mem_flatten.mpr ⟨g, hg, hi⟩))

/-- two groups that hold indices with equal values are the same group -/
theorem IsGrouping.same_group {vs : List α} {gs : List (List Nat)} (h : IsGrouping vs gs)
    {g g' : List Nat} (hg : g ∈ gs) (hg' : g' ∈ gs) {i j : Nat} (hi : i ∈ g) (hj : j ∈ g')
    (e : vs[i]? = vs[j]?) : g = g' := by
  let R : List Nat → List Nat → Prop := fun a b => a = b ∨ ∀ i ∈ a, ∀ j ∈ b, vs[i]? ≠ vs[j]?
  have h2 : gs.Pairwise R := h.distinct.imp (fun hd => Or.inr hd)
  have h3 : gs.Pairwise (flip R) :=
    h.distinct.imp (fun {a b} hd => Or.inr (fun i hi j hj => (hd j hj i hi).symm))
  have := List.Pairwise.forall_of_forall_of_flip (R := R) (fun x _ => Or.inl rfl) h2 h3 hg hg'
  rcases this with e' | e'
  · exact e'
  · exact absurd e (e' i hi j hj)

/-- each index belongs to exactly one group, and two indices share a group iff their values agree -/
theorem IsGrouping.iff_same_group {vs : List α} {gs : List (List Nat)} (h : IsGrouping vs gs)
    {i j : Nat} (hi : i < vs.length) (hj : j < vs.length) :
    (∃ g ∈ gs, i ∈ g ∧ j ∈ g) ↔ vs[i]? = vs[j]? := by
  constructor
  · rintro ⟨g, hg, hig, hjg⟩; exact h.same g hg i hig j hjg
  · intro e
    obtain ⟨g, hg, hig⟩ := h.covers hi
    obtain ⟨g', hg', hjg⟩ := h.covers hj
    have := h.same_group hg hg' hig hjg e
    subst this
    exact ⟨g, hg, hig, hjg⟩

/-- every index occurs exactly once in all the groups together -/
theorem IsGrouping.count_one {vs : List α} {gs : List (List Nat)} (h : IsGrouping vs gs)
    {i : Nat} (hi : i < vs.length) : gs.flatten.count i = 1 := by
  rw [h.perm.count_eq]
  rw [List.Nodup.count List.nodup_range]
  simp [hi]

/-- results of the `np.unique(return_index, return_inverse)` model over any grouping -/
def uniqueOfGroups (n : Nat) (gs : List (List Nat)) : List Nat × List Nat :=
  (gs.map (fun g => g.headD 0), (List.range n).map (fun i => gs.findIdx (fun g => g.contains i)))

theorem headD_mem {g : List Nat} (h : g ≠ []) : g.headD 0 ∈ g := by
  cases g with
  | nil => exact absurd rfl h
  | cons a t => simp

/-- reconstruction: `values[unique[inverse[i]]] = values[i]` -/
theorem IsGrouping.unique_reconstruct {vs : List α} {gs : List (List Nat)} (h : IsGrouping vs gs)
    {i : Nat} (hi : i < vs.length) :
    ∃ k u, (uniqueOfGroups vs.length gs).2[i]? = some k ∧ (uniqueOfGroups vs.length gs).1[k]? = some u
      ∧ vs[u]? = vs[i]? := by
  obtain ⟨g, hg, hig⟩ := h.covers hi
  have hex : ∃ x ∈ gs, (fun g : List Nat => g.contains i) x = true := ⟨g, hg, by simpa using hig⟩
  have hlt := List.findIdx_lt_length_of_exists hex
  have hget := List.findIdx_getElem (w := hlt)
  refine ⟨gs.findIdx (fun g => g.contains i), (gs[gs.findIdx (fun g => g.contains i)]).headD 0, ?_, ?_, ?_⟩
  · simp [uniqueOfGroups, hi]
  · simp only [uniqueOfGroups, List.getElem?_map, List.getElem?_eq_getElem hlt, Option.map_some]
  · have hmem : gs[gs.findIdx (fun g => g.contains i)] ∈ gs := List.getElem_mem hlt
    have hi' : i ∈ gs[gs.findIdx (fun g => g.contains i)] := by simpa using hget
    exact h.same _ hmem _ (headD_mem (h.ne_nil _ hmem)) _ hi'

/-- the unique values are pairwise different -/
theorem IsGrouping.unique_distinct {vs : List α} {gs : List (List Nat)} (h : IsGrouping vs gs) :
    (uniqueOfGroups vs.length gs).1.Pairwise (fun u u' => vs[u]? ≠ vs[u']?) := by
  simp only [uniqueOfGroups]
  rw [List.pairwise_map]
  refine List.Pairwise.imp_of_mem ?_ h.distinct
  intro g g' hg hg' hd
  exact hd _ (headD_mem (h.ne_nil g hg)) _ (headD_mem (h.ne_nil g' hg'))

/-- each unique index is the first occurrence of its value -/
theorem IsGrouping.unique_first {vs : List α} {gs : List (List Nat)} (h : IsGrouping vs gs)
    {u : Nat} (hu : u ∈ (uniqueOfGroups vs.length gs).1) : ∀ j, j < u → vs[j]? ≠ vs[u]? := by
  simp only [uniqueOfGroups] at hu
  obtain ⟨g, hg, rfl⟩ := List.mem_map.mp hu
  intro j hj e
  have hhead := headD_mem (h.ne_nil g hg)
  have hult := h.mem_lt hg hhead
  obtain ⟨g', hg', hjg'⟩ := h.covers (Nat.lt_trans hj hult)
  have := h.same_group hg' hg hjg' hhead e
  subst this
  -- j ∈ g and head ≤ j
  have hasc := h.ascending g' hg'
  cases g' with
  | nil => exact absurd rfl (h.ne_nil _ hg)
  | cons a t =>
    simp only [List.headD_cons] at hj
    rcases List.mem_cons.mp hjg' with e1 | e1
    · omega
    · have := (List.pairwise_cons.mp hasc).1 j e1; omega

theorem orderByHead_perm (gs : List (List Nat)) : (orderByHead gs).Perm gs := List.mergeSort_perm _ _

theorem orderByHead_sorted (gs : List (List Nat)) :
    ((orderByHead gs).map (fun g => g.headD 0)).Pairwise (· ≤ ·) := by
  rw [List.pairwise_map]
  have := List.pairwise_mergeSort (le := fun a b : List Nat => decide (a.headD 0 ≤ b.headD 0))
    (by intro a b c; simp; omega) (by intro a b; simp; omega) gs
  exact this.imp (by intro a b h; simpa using h)

end TV
