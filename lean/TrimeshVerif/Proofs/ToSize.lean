import TrimeshVerif.Proofs.Remesh
import Mathlib.Algebra.Order.Field.Basic
import Mathlib.Tactic.Linarith
import Mathlib.Tactic.Ring
import Mathlib.Tactic.FieldSimp
/-
`remesh.subdivide_to_size` (C18), face by face: a triangle with an edge longer than the bound is replaced by its four
children, again and again, at most `max_iter` times.  Lengths are compared as squares.
-/
namespace TV.ToSize
open TV.Mat3 TV.Moments TV.Affine TV.Remesh

variable {F : Type} [Field F] [LinearOrder F] [IsStrictOrderedRing F]

abbrev Tri (F : Type) := V3 F × V3 F × V3 F

def len2 (p q : V3 F) : F := dot (sub q p) (sub q p)

/-- squared length of the longest edge -/
def maxEdge2 (t : Tri F) : F := max (max (len2 t.1 t.2.1) (len2 t.2.1 t.2.2)) (len2 t.2.2 t.1)

/-- `too_long = (edge_length > max_edge).any(axis=1)` is false -/
def small (m2 : F) (t : Tri F) : Prop := maxEdge2 t ≤ m2

instance (m2 : F) (t : Tri F) : Decidable (small m2 t) := by unfold small; infer_instance

/-- one face through the loop of `subdivide_to_size` with `fuel` subdivisions left; `none` = "max_iter exceeded" -/
def toSize (m2 : F) : Nat → Tri F → Option (List (Tri F))
  | 0, t => if small m2 t then some [t] else none
  | fuel + 1, t =>
    if small m2 t then some [t]
    else ((children t.1 t.2.1 t.2.2).mapM (toSize m2 fuel)).map List.flatten

theorem len2_mid (a b c : V3 F) :
    len2 a (midpoint a b) * 4 = len2 a b ∧ len2 (midpoint a b) b * 4 = len2 a b ∧
    len2 (midpoint a b) (midpoint b c) * 4 = len2 a c ∧ len2 (midpoint a b) (midpoint c a) * 4 = len2 b c := by
  obtain ⟨a1, a2, a3⟩ := a
  obtain ⟨b1, b2, b3⟩ := b
  obtain ⟨c1, c2, c3⟩ := c
  simp only [len2, dot, sub, midpoint]
  refine ⟨?_, ?_, ?_, ?_⟩ <;> ring

theorem len2_symm (p q : V3 F) : len2 p q = len2 q p := by
  obtain ⟨p1, p2, p3⟩ := p; obtain ⟨q1, q2, q3⟩ := q
  simp only [len2, dot, sub]; ring

/-- **every child has edges half as long as the parent's**: the longest edge is halved exactly -/
theorem child_maxEdge2 (a b c : V3 F) : ∀ t ∈ children a b c, maxEdge2 t * 4 = maxEdge2 (a, b, c) := by
  intro t ht
  have hab := len2_mid a b c
  have hbc := len2_mid b c a
  have hca := len2_mid c a b
  have s1 := len2_symm a b; have s2 := len2_symm b c; have s3 := len2_symm c a
  have m4 : ∀ x y : F, max x y * 4 = max (x * 4) (y * 4) := by
    intro x y
    rcases le_total x y with h | h
    · rw [max_eq_right h, max_eq_right (by linarith)]
    · rw [max_eq_left h, max_eq_left (by linarith)]
  simp only [children, List.mem_cons, List.not_mem_nil, or_false] at ht
  rcases ht with rfl | rfl | rfl | rfl <;> simp only [maxEdge2, m4]
  · -- (a, m_ab, m_ca)
    have e1 : len2 a (midpoint a b) * 4 = len2 a b := hab.1
    have e2 : len2 (midpoint a b) (midpoint c a) * 4 = len2 b c := hab.2.2.2
    have e3 : len2 (midpoint c a) a * 4 = len2 c a := hca.2.1
    rw [e1, e2, e3]
  · -- (m_ab, b, m_bc)
    have e1 : len2 (midpoint a b) b * 4 = len2 a b := hab.2.1
    have e2 : len2 b (midpoint b c) * 4 = len2 b c := hbc.1
    have e3 : len2 (midpoint b c) (midpoint a b) * 4 = len2 c a := by
      rw [len2_symm]; rw [hab.2.2.1, len2_symm]
    rw [e1, e2, e3]
  · -- (m_ca, m_bc, c)
    have e1 : len2 (midpoint c a) (midpoint b c) * 4 = len2 a b := hca.2.2.2
    have e2 : len2 (midpoint b c) c * 4 = len2 b c := hbc.2.1
    have e3 : len2 c (midpoint c a) * 4 = len2 c a := hca.1
    rw [e1, e2, e3]
  · -- (m_ab, m_bc, m_ca)
    have e1 : len2 (midpoint a b) (midpoint b c) * 4 = len2 c a := by rw [hab.2.2.1, len2_symm]
    have e2 : len2 (midpoint b c) (midpoint c a) * 4 = len2 a b := by rw [hbc.2.2.1, len2_symm]
    have e3 : len2 (midpoint c a) (midpoint a b) * 4 = len2 b c := by rw [hca.2.2.1, len2_symm]
    rw [e1, e2, e3]
    -- max (max ca ab) bc = max (max ab bc) ca
    rw [max_comm (len2 c a) (len2 a b), max_assoc, max_comm (len2 c a) (len2 b c), ← max_assoc]

theorem mapM_some_of_forall {α β : Type} (f : α → Option β) : ∀ l : List α, (∀ x ∈ l, ∃ y, f x = some y) →
    ∃ ys, l.mapM f = some ys
  | [], _ => ⟨[], rfl⟩
  | x :: xs, h => by
    obtain ⟨y, hy⟩ := h x List.mem_cons_self
    obtain ⟨ys, hys⟩ := mapM_some_of_forall f xs (fun z hz => h z (List.mem_cons_of_mem _ hz))
    exact ⟨y :: ys, by simp [List.mapM_cons, hy, hys]⟩

/-- **the loop succeeds within `fuel` subdivisions whenever the longest edge is at most `2^fuel` bounds** -/
theorem toSize_succeeds (m2 : F) (hm : 0 ≤ m2) : ∀ (fuel : Nat) (t : Tri F), maxEdge2 t ≤ m2 * 4 ^ fuel →
    ∃ ts, toSize m2 fuel t = some ts
  | 0, t, h => by
    have : small m2 t := by unfold small; simpa using h
    exact ⟨[t], by simp [toSize, this]⟩
  | fuel + 1, t, h => by
    by_cases hs : small m2 t
    · exact ⟨[t], by simp [toSize, hs]⟩
    · obtain ⟨a, b, c⟩ := t
      have hc : ∀ ch ∈ children a b c, ∃ ts, toSize m2 fuel ch = some ts := by
        intro ch hch
        apply toSize_succeeds m2 hm fuel ch
        have := child_maxEdge2 a b c ch hch
        have h4 : m2 * 4 ^ (fuel + 1) = m2 * 4 ^ fuel * 4 := by ring
        rw [h4] at h
        linarith
      obtain ⟨ys, hys⟩ := mapM_some_of_forall (toSize m2 fuel) _ hc
      exact ⟨ys.flatten, by simp [toSize, hs, hys]⟩

theorem mem_of_mapM {α β : Type} (f : α → Option β) : ∀ (l : List α) (ys : List β), l.mapM f = some ys →
    ∀ y ∈ ys, ∃ x ∈ l, f x = some y
  | [], ys, h, y, hy => by simp at h; subst h; simp at hy
  | x :: xs, ys, h, y, hy => by
    simp only [List.mapM_cons, Option.bind_eq_bind] at h
    cases hx : f x with
    | none => simp [hx] at h
    | some v =>
      cases hxs : xs.mapM f with
      | none => simp [hx, hxs] at h
      | some vs =>
        simp [hx, hxs] at h
        subst h
        rcases List.mem_cons.mp hy with rfl | hy
        · exact ⟨x, List.mem_cons_self, hx⟩
        · obtain ⟨x', hx', hfx⟩ := mem_of_mapM f xs vs hxs y hy
          exact ⟨x', List.mem_cons_of_mem _ hx', hfx⟩

/-- **no edge longer than the bound is left**: every triangle of a successful result is small -/
theorem toSize_small (m2 : F) : ∀ (fuel : Nat) (t : Tri F) (ts : List (Tri F)), toSize m2 fuel t = some ts →
    ∀ t' ∈ ts, small m2 t'
  | 0, t, ts, h, t', ht' => by
    unfold toSize at h
    split at h
    · next hs => simp at h; subst h; simp at ht'; subst ht'; exact hs
    · simp at h
  | fuel + 1, t, ts, h, t', ht' => by
    unfold toSize at h
    split at h
    · next hs => simp at h; subst h; simp at ht'; subst ht'; exact hs
    · cases hm : (children t.1 t.2.1 t.2.2).mapM (toSize m2 fuel) with
      | none => simp [hm] at h
      | some ys =>
        simp [hm] at h
        subst h
        obtain ⟨l, hl, htl⟩ := List.mem_flatten.mp ht'
        obtain ⟨ch, _, hch⟩ := mem_of_mapM _ _ _ hm l hl
        exact toSize_small m2 fuel ch l hch t' htl

end TV.ToSize
