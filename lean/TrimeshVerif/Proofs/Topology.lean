/-
Helper lemmas for C05 (topological queries): facts about `IsGrouping` (group sizes are value counts),
the edge lists, the edge grouping, and the label-relaxation model of connected components.
-/
import TrimeshVerif.Model.Topology
import TrimeshVerif.Proofs.Grouping
import TrimeshVerif.Props.C06
namespace TV
variable {α : Type} [DecidableEq α]

/-! ### generic list facts -/

omit [DecidableEq α] in
theorem nodup_eraseDups [BEq α] [LawfulBEq α] : ∀ (n : Nat) (l : List α), l.length ≤ n → l.eraseDups.Nodup
  | _, [], _ => by simp
  | 0, _ :: _, h => by simp at h
  | n + 1, a :: as, h => by
    rw [List.eraseDups_cons, List.nodup_cons]
    refine ⟨by simp, nodup_eraseDups n _ ?_⟩
    have := List.length_filter_le (fun b => !b == a) as
    simp only [List.length_cons] at h
    omega

omit [DecidableEq α] in
theorem eraseDups_nodup [BEq α] [LawfulBEq α] (l : List α) : l.eraseDups.Nodup := nodup_eraseDups l.length l (Nat.le_refl _)

omit [DecidableEq α] in
/-- two duplicate-free lists with the same members have the same length -/
theorem length_eq_of_nodup_of_mem_iff {l₁ l₂ : List α} (d₁ : l₁.Nodup) (d₂ : l₂.Nodup)
    (h : ∀ a, a ∈ l₁ ↔ a ∈ l₂) : l₁.length = l₂.length :=
  ((List.perm_ext_iff_of_nodup d₁ d₂).mpr h).length_eq

omit [DecidableEq α] in
theorem length_eraseDups_eq [BEq α] [LawfulBEq α] {l₁ l₂ : List α} (d₁ : l₁.Nodup) (h : ∀ a, a ∈ l₁ ↔ a ∈ l₂) :
    l₁.length = l₂.eraseDups.length :=
  length_eq_of_nodup_of_mem_iff d₁ (eraseDups_nodup l₂) (fun a => by rw [List.mem_eraseDups]; exact h a)

/-- number of indices carrying a value = count of the value -/
theorem length_filter_range_eq_count [BEq α] [LawfulBEq α] (vs : List α) (x : α) :
    ((List.range vs.length).filter (fun j => decide (vs[j]? = some x))).length = vs.count x := by
  induction vs with
  | nil => simp
  | cons a t ih =>
    rw [List.length_cons, List.range_succ_eq_map, List.filter_cons, List.filter_map, List.count_cons]
    have : ((fun j => decide ((a :: t)[j]? = some x)) ∘ Nat.succ) = (fun j => decide (t[j]? = some x)) := by
      funext j; simp
    rw [this]
    by_cases e : a = x
    · subst e; simp [ih]
    · simp [ih, e]

omit [DecidableEq α] in
theorem IsGrouping.nodup {vs : List α} {gs : List (List Nat)} (h : IsGrouping vs gs)
    {g : List Nat} (hg : g ∈ gs) : g.Nodup := by
  have h1 : gs.flatten.Nodup := h.perm.symm.nodup List.nodup_range
  exact h1.sublist (List.sublist_flatten_of_mem hg)

theorem IsGrouping.mem_iff {vs : List α} {gs : List (List Nat)} (h : IsGrouping vs gs)
    {g : List Nat} (hg : g ∈ gs) {i : Nat} (hi : i ∈ g) (j : Nat) :
    j ∈ g ↔ j < vs.length ∧ vs[j]? = vs[i]? := by
  constructor
  · intro hj; exact ⟨h.mem_lt hg hj, h.same g hg j hj i hi⟩
  · rintro ⟨hj, e⟩
    obtain ⟨g', hg', hjg'⟩ := h.covers hj
    have := h.same_group hg' hg hjg' hi e
    subst this; exact hjg'

/-- the size of a group is the number of occurrences of its value -/
theorem IsGrouping.length_eq_count [BEq α] [LawfulBEq α] {vs : List α} {gs : List (List Nat)}
    (h : IsGrouping vs gs)
    {g : List Nat} (hg : g ∈ gs) {i : Nat} (hi : i ∈ g) {x : α} (hx : vs[i]? = some x) :
    g.length = vs.count x := by

  rw [← length_filter_range_eq_count]
  refine ((List.perm_ext_iff_of_nodup (h.nodup hg) (List.nodup_range.filter _)).mpr ?_).length_eq
  intro j
  rw [h.mem_iff hg hi j, hx]
  simp

/-! ### more about `IsGrouping` -/

omit [DecidableEq α] in
/-- transport a grouping along an injective relabelling of the values -/
theorem IsGrouping.of_map {β : Type} [DecidableEq β] {vs : List α} {f : α → β} {gs : List (List Nat)}
    (finj : ∀ a ∈ vs, ∀ b ∈ vs, f a = f b → a = b) (h : IsGrouping (vs.map f) gs) :
    IsGrouping vs gs := by
  have key : ∀ i j : Nat, (vs.map f)[i]? = (vs.map f)[j]? ↔ vs[i]? = vs[j]? := by
    intro i j
    simp only [List.getElem?_map]
    constructor
    · intro e
      cases hi : vs[i]? with
      | none => cases hj : vs[j]? with
        | none => rfl
        | some b => rw [hi, hj] at e; simp at e
      | some a => cases hj : vs[j]? with
        | none => rw [hi, hj] at e; simp at e
        | some b =>
          rw [hi, hj] at e
          simp only [Option.map_some, Option.some.injEq] at e
          rw [finj a (List.mem_of_getElem? hi) b (List.mem_of_getElem? hj) e]
    · intro e; rw [e]
  refine ⟨by simpa using h.perm, ?_, ?_, h.ne_nil, h.ascending⟩
  · intro g hg i hi j hj; exact (key i j).mp (h.same g hg i hi j hj)
  · exact h.distinct.imp (fun hd i hi j hj e => hd i hi j hj ((key i j).mpr e))

omit [DecidableEq α] in
/-- a group of size two is an ascending pair -/
theorem IsGrouping.pair_shape {vs : List α} {gs : List (List Nat)} (h : IsGrouping vs gs)
    {g : List Nat} (hg : g ∈ gs) (hl : g.length = 2) : ∃ i j, g = [i, j] ∧ i < j := by
  match g, hl with
  | [i, j], _ =>
    have h1 := h.nodup hg
    have h2 := h.ascending _ hg
    simp at h1 h2
    exact ⟨i, j, rfl, by omega⟩

/-- the groups of size two are exactly the ascending pairs of positions of a value occurring twice -/
theorem IsGrouping.pair_mem_iff [BEq α] [LawfulBEq α] {vs : List α} {gs : List (List Nat)} (h : IsGrouping vs gs)
    (d : α) (i j : Nat) :
    [i, j] ∈ gs ↔ i < j ∧ j < vs.length ∧ vs[i]? = vs[j]? ∧ vs.count (vs.getD i d) = 2 := by
  constructor
  · intro hg
    obtain ⟨i', j', e, hij⟩ := h.pair_shape hg rfl
    simp only [List.cons.injEq, and_true] at e
    obtain ⟨rfl, rfl⟩ := e
    have hi := h.mem_lt hg (i := i) (by simp)
    have hj := h.mem_lt hg (i := j) (by simp)
    refine ⟨hij, hj, h.same _ hg i (by simp) j (by simp), ?_⟩
    have := h.length_eq_count hg (i := i) (by simp) (x := vs[i]) (by simp [hi])
    rw [List.getD_eq_getElem?_getD, List.getElem?_eq_getElem hi]
    simpa using this.symm
  · rintro ⟨hij, hj, e, hc⟩
    have hi : i < vs.length := by omega
    obtain ⟨g, hg, hig⟩ := h.covers hi
    have hjg : j ∈ g := (h.mem_iff hg hig j).mpr ⟨hj, e.symm⟩
    have hl := h.length_eq_count hg hig (x := vs[i]) (by simp [hi])
    rw [List.getD_eq_getElem?_getD, List.getElem?_eq_getElem hi] at hc
    simp only [Option.getD_some] at hc
    rw [hc] at hl
    obtain ⟨a, b, rfl, hab⟩ := h.pair_shape hg hl
    simp only [List.mem_cons, List.not_mem_nil, or_false] at hig hjg
    have : a = i ∧ b = j := by omega
    rw [← this.1, ← this.2]; exact hg

/-- (#groups of size two) * 2 = #indices iff every group has size two -/
theorem pairs_cover_iff : ∀ (gs : List (List Nat)), (∀ g ∈ gs, g ≠ []) →
    (((gs.filter (fun g => g.length == 2)).length * 2 = gs.flatten.length ↔ ∀ g ∈ gs, g.length = 2) ∧
      (gs.filter (fun g => g.length == 2)).length * 2 ≤ gs.flatten.length)
  | [], _ => by simp
  | g :: t, hne => by
    have ih := pairs_cover_iff t (fun x hx => hne x (List.mem_cons_of_mem _ hx))
    have hg : g.length ≠ 0 := by
      have := hne g (by simp); intro e; exact this (List.length_eq_zero_iff.mp e)
    simp only [List.filter_cons, List.flatten_cons, List.length_append, List.forall_mem_cons]
    by_cases e : g.length = 2
    · simp only [e, beq_self_eq_true, if_true, List.length_cons, true_and]
      constructor
      · rw [← ih.1]; omega
      · omega
    · have e' : (g.length == 2) = false := by simpa using e
      simp only [e', Bool.false_eq_true, if_false, e, false_and, iff_false]
      omega

end TV

namespace TV.Topology
open TV TV.Grouping

/-! ### edges -/

theorem edges_cons (f : Face) (fs : List Face) :
    edges (f :: fs) = (f.1, f.2.1) :: (f.2.1, f.2.2) :: (f.2.2, f.1) :: edges fs := by
  simp [edges]

theorem edges_length (fs : List Face) : (edges fs).length = 3 * fs.length := by
  induction fs with
  | nil => rfl
  | cons f t ih => rw [edges_cons]; simp only [List.length_cons, ih]; omega

theorem edges_getElem? : ∀ (fs : List Face) (i : Nat) (h : i < fs.length),
    (edges fs)[3 * i]? = some (fs[i].1, fs[i].2.1) ∧
    (edges fs)[3 * i + 1]? = some (fs[i].2.1, fs[i].2.2) ∧
    (edges fs)[3 * i + 2]? = some (fs[i].2.2, fs[i].1)
  | f :: t, 0, _ => by simp [edges_cons]
  | f :: t, i + 1, h => by
    have ih := edges_getElem? t i (by simpa using h)
    rw [edges_cons]
    have e0 : 3 * (i + 1) = 3 * i + 3 := by omega
    have e1 : 3 * i + 3 + 1 = 3 * i + 1 + 3 := by omega
    have e2 : 3 * i + 3 + 2 = 3 * i + 2 + 3 := by omega
    have sk : ∀ (a b c : Edge) (l : List Edge) (k : Nat), (a :: b :: c :: l)[k + 3]? = l[k]? := by
      intros; rfl
    rw [e0, e1, e2, sk, sk, sk]
    simp only [List.getElem_cons_succ]
    exact ih

theorem edgesFace_length (fs : List Face) : (edgesFace fs).length = 3 * fs.length := by
  unfold edgesFace
  generalize fs.length = n
  induction n with
  | zero => rfl
  | succ n ih => rw [List.range_succ, List.flatMap_append, List.length_append, ih]; simp; omega

theorem edgesFace_getElem? (fs : List Face) (k : Nat) (h : k < 3 * fs.length) :
    (edgesFace fs)[k]? = some (k / 3) := by
  unfold edgesFace
  generalize fs.length = n at h
  induction n with
  | zero => omega
  | succ n ih =>
    have hl : ((List.range n).flatMap (fun i => [i, i, i])).length = 3 * n := by
      have := edgesFace_length (List.replicate n (0, 0, 0))
      simpa [edgesFace] using this
    rw [List.range_succ, List.flatMap_append]
    by_cases hk : k < 3 * n
    · rw [List.getElem?_append_left (by omega)]; exact ih hk
    · rw [List.getElem?_append_right (by omega), hl]
      have : k - 3 * n = 0 ∨ k - 3 * n = 1 ∨ k - 3 * n = 2 := by omega
      have hd : k / 3 = n := by omega
      rcases this with e | e | e <;> simp [e, hd]


/-! ### the edge grouping -/

theorem edgeRow_inj {a b : Edge} (h : edgeRow a = edgeRow b) : a = b := by
  obtain ⟨a1, a2⟩ := a; obtain ⟨b1, b2⟩ := b
  simp only [edgeRow, List.cons.injEq, Int.natCast_inj, and_true] at h
  rw [h.1, h.2]

/-- the index groups computed on the hashed edge rows group the sorted edges by equality -/
theorem edgeGroups_isGrouping (fs : List Face) :
    IsGrouping (edgesSorted fs) (groupsOf lexLe (hashableRows 2 (edgeRows fs))) := by
  obtain ⟨f, hf, finj⟩ := C06.C06_hashable_faithful 2 (edgeRows fs) (by
    intro r hr; simp only [edgeRows, List.mem_map] at hr
    obtain ⟨e, _, rfl⟩ := hr; rfl)
  have h := groupsOf_isGrouping lexLe_isOrder (hashableRows 2 (edgeRows fs))
  rw [hf] at h ⊢
  have e : (edgeRows fs).map f = (edgesSorted fs).map (f ∘ edgeRow) := by simp [edgeRows]
  rw [e] at h ⊢
  refine IsGrouping.of_map ?_ h
  intro a ha b hb hab
  exact edgeRow_inj (finj _ (List.mem_map_of_mem ha) _ (List.mem_map_of_mem hb) hab)

theorem pairGroups_eq (fs : List Face) :
    pairGroups fs = (groupsOf lexLe (hashableRows 2 (edgeRows fs))).filter (fun g => g.length == 2) := rfl

/-- the groups of `group_rows(edges_sorted, require_count=2)` -/
theorem mem_pairGroups (fs : List Face) (g : List Nat) :
    g ∈ pairGroups fs ↔ ∃ i j, g = [i, j] ∧ i < j ∧ j < (edgesSorted fs).length ∧
      (edgesSorted fs)[i]? = (edgesSorted fs)[j]? ∧
      (edgesSorted fs).count ((edgesSorted fs).getD i (0, 0)) = 2 := by
  have h := edgeGroups_isGrouping fs
  rw [pairGroups_eq, List.mem_filter]
  constructor
  · rintro ⟨hg, hl⟩
    obtain ⟨i, j, rfl, _⟩ := h.pair_shape hg (by simpa using hl)
    exact ⟨i, j, rfl, (h.pair_mem_iff (0, 0) i j).mp hg⟩
  · rintro ⟨i, j, rfl, hh⟩
    exact ⟨(h.pair_mem_iff (0, 0) i j).mpr hh, rfl⟩

theorem mem_drop_take3 {β : Type} (l : List β) (f : Nat) (e : β) :
    e ∈ (l.drop (3 * f)).take 3 ↔ ∃ i, i / 3 = f ∧ l[i]? = some e := by
  rw [List.mem_iff_getElem?]
  constructor
  · rintro ⟨r, hr⟩
    rw [List.getElem?_take] at hr
    split at hr
    · rw [List.getElem?_drop] at hr
      exact ⟨3 * f + r, by omega, hr⟩
    · simp at hr
  · rintro ⟨i, hi, he⟩
    refine ⟨i - 3 * f, ?_⟩
    rw [List.getElem?_take, if_pos (by omega), List.getElem?_drop]
    have : 3 * f + (i - 3 * f) = i := by omega
    rw [this]; exact he

theorem mem_faceAdjacency (fs : List Face) (f g : Nat) (e : Edge) :
    ((f, g), e) ∈ faceAdjacency fs ↔
      f < g ∧ (edgesSorted fs).count e = 2 ∧ e ∈ ((edgesSorted fs).drop (3 * f)).take 3 ∧
        e ∈ ((edgesSorted fs).drop (3 * g)).take 3 := by
  unfold faceAdjacency
  rw [List.mem_filterMap, mem_drop_take3, mem_drop_take3]
  constructor
  · rintro ⟨grp, hgrp, hm⟩
    obtain ⟨i, j, rfl, hij, hj, hsame, hc⟩ := (mem_pairGroups fs grp).mp hgrp
    simp only at hm
    split at hm
    · rename_i hne
      simp only [Option.some.injEq, Prod.mk.injEq] at hm
      obtain ⟨⟨h1, h2⟩, h3⟩ := hm
      have hi : i < (edgesSorted fs).length := by omega
      have hle : i / 3 ≤ j / 3 := Nat.div_le_div_right (by omega)
      rw [List.getD_eq_getElem?_getD, List.getElem?_eq_getElem hi, Option.getD_some] at h3 hc
      refine ⟨by omega, by rw [← h3]; exact hc, ⟨i, by omega, by rw [← h3]; simp [hi]⟩,
        ⟨j, by omega, by rw [← h3, ← hsame]; simp [hi]⟩⟩
    · simp at hm
  · rintro ⟨hfg, hc, ⟨i, hi3, hi⟩, ⟨j, hj3, hj⟩⟩
    have hil : i < (edgesSorted fs).length := (List.getElem?_eq_some_iff.mp hi).1
    have hjl : j < (edgesSorted fs).length := (List.getElem?_eq_some_iff.mp hj).1
    have hij : i < j := by
      rcases Nat.lt_or_ge i j with h | h
      · exact h
      · have := Nat.div_le_div_right (c := 3) h; omega
    have hd : (edgesSorted fs).getD i (0, 0) = e := by
      rw [List.getD_eq_getElem?_getD, hi]; rfl
    refine ⟨[i, j], (mem_pairGroups fs _).mpr ⟨i, j, rfl, hij, hjl, by rw [hi, hj], by rw [hd]; exact hc⟩, ?_⟩
    simp only
    rw [if_pos (by omega), hd]
    simp only [Option.some.injEq, Prod.mk.injEq, and_true]
    omega

end TV.Topology
