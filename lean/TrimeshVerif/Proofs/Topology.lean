import TrimeshVerif.Model.Topology
import TrimeshVerif.Proofs.Grouping
import TrimeshVerif.Props.C06
namespace TV.Topology

end TV.Topology
