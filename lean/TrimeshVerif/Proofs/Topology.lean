/-
Helper lemmas for C05 (topological queries): facts about `IsGrouping` (group sizes are value counts),
the edge lists, the edge grouping, and the label-relaxation model of connected components.
-/
import TrimeshVerif.Model.Topology
import TrimeshVerif.Proofs.Grouping
import TrimeshVerif.Props.C06
namespace TV
variable {α : Type} [DecidableEq α]

/-! ### generic list facts -/

omit [DecidableEq α] in
theorem nodup_eraseDups [BEq α] [LawfulBEq α] : ∀ (n : Nat) (l : List α), l.length ≤ n → l.eraseDups.Nodup
  | _, [], _ => by simp
  | 0, _ :: _, h => by simp at h
  | n + 1, a :: as, h => by
    rw [List.eraseDups_cons, List.nodup_cons]
    refine ⟨by simp, nodup_eraseDups n _ ?_⟩
    have := List.length_filter_le (fun b => !b == a) as
    simp only [List.length_cons] at h
    omega

omit [DecidableEq α] in
theorem eraseDups_nodup [BEq α] [LawfulBEq α] (l : List α) : l.eraseDups.Nodup := nodup_eraseDups l.length l (Nat.le_refl _)

omit [DecidableEq α] in
/-- two duplicate-free lists with the same members have the same length -/
theorem length_eq_of_nodup_of_mem_iff {l₁ l₂ : List α} (d₁ : l₁.Nodup) (d₂ : l₂.Nodup)
    (h : ∀ a, a ∈ l₁ ↔ a ∈ l₂) : l₁.length = l₂.length :=
  ((List.perm_ext_iff_of_nodup d₁ d₂).mpr h).length_eq

omit [DecidableEq α] in
theorem length_eraseDups_eq [BEq α] [LawfulBEq α] {l₁ l₂ : List α} (d₁ : l₁.Nodup) (h : ∀ a, a ∈ l₁ ↔ a ∈ l₂) :
    l₁.length = l₂.eraseDups.length :=
  length_eq_of_nodup_of_mem_iff d₁ (eraseDups_nodup l₂) (fun a => by rw [List.mem_eraseDups]; exact h a)

/-- number of indices carrying a value = count of the value -/
theorem length_filter_range_eq_count [BEq α] [LawfulBEq α] (vs : List α) (x : α) :
    ((List.range vs.length).filter (fun j => decide (vs[j]? = some x))).length = vs.count x := by
  induction vs with
  | nil => simp
  | cons a t ih =>
    rw [List.length_cons, List.range_succ_eq_map, List.filter_cons, List.filter_map, List.count_cons]
    have : ((fun j => decide ((a :: t)[j]? = some x)) ∘ Nat.succ) = (fun j => decide (t[j]? = some x)) := by
      funext j; simp
    rw [this]
    by_cases e : a = x
    · subst e; simp [ih]
    · simp [ih, e]

omit [DecidableEq α] in
theorem IsGrouping.nodup {vs : List α} {gs : List (List Nat)} (h : IsGrouping vs gs)
    {g : List Nat} (hg : g ∈ gs) : g.Nodup := by
  have h1 : gs.flatten.Nodup := h.perm.symm.nodup List.nodup_range
  exact h1.sublist (List.sublist_flatten_of_mem hg)

theorem IsGrouping.mem_iff {vs : List α} {gs : List (List Nat)} (h : IsGrouping vs gs)
    {g : List Nat} (hg : g ∈ gs) {i : Nat} (hi : i ∈ g) (j : Nat) :
    j ∈ g ↔ j < vs.length ∧ vs[j]? = vs[i]? := by
  constructor
  · intro hj; exact ⟨h.mem_lt hg hj, h.same g hg j hj i hi⟩
  · rintro ⟨hj, e⟩
    obtain ⟨g', hg', hjg'⟩ := h.covers hj
    have := h.same_group hg' hg hjg' hi e
    subst this; exact hjg'

/-- the size of a group is the number of occurrences of its value -/
theorem IsGrouping.length_eq_count [BEq α] [LawfulBEq α] {vs : List α} {gs : List (List Nat)}
    (h : IsGrouping vs gs)
    {g : List Nat} (hg : g ∈ gs) {i : Nat} (hi : i ∈ g) {x : α} (hx : vs[i]? = some x) :
    g.length = vs.count x := by

  rw [← length_filter_range_eq_count]
  refine ((List.perm_ext_iff_of_nodup (h.nodup hg) (List.nodup_range.filter _)).mpr ?_).length_eq
  intro j
  rw [h.mem_iff hg hi j, hx]
  simp

/-! ### more about `IsGrouping` -/

omit [DecidableEq α] in
/-- transport a grouping along an injective relabelling of the values -/
theorem IsGrouping.of_map {β : Type} [DecidableEq β] {vs : List α} {f : α → β} {gs : List (List Nat)}
    (finj : ∀ a ∈ vs, ∀ b ∈ vs, f a = f b → a = b) (h : IsGrouping (vs.map f) gs) :
    IsGrouping vs gs := by
  have key : ∀ i j : Nat, (vs.map f)[i]? = (vs.map f)[j]? ↔ vs[i]? = vs[j]? := by
    intro i j
    simp only [List.getElem?_map]
    constructor
    · intro e
      cases hi : vs[i]? with
      | none => cases hj : vs[j]? with
        | none => rfl
        | some b => rw [hi, hj] at e; simp at e
      | some a => cases hj : vs[j]? with
        | none => rw [hi, hj] at e; simp at e
        | some b =>
          rw [hi, hj] at e
          simp only [Option.map_some, Option.some.injEq] at e
          rw [finj a (List.mem_of_getElem? hi) b (List.mem_of_getElem? hj) e]
    · intro e; rw [e]
  refine ⟨by simpa using h.perm, ?_, ?_, h.ne_nil, h.ascending⟩
  · intro g hg i hi j hj; exact (key i j).mp (h.same g hg i hi j hj)
  · exact h.distinct.imp (fun hd i hi j hj e => hd i hi j hj ((key i j).mpr e))

omit [DecidableEq α] in
/-- a group of size two is an ascending pair -/
theorem IsGrouping.pair_shape {vs : List α} {gs : List (List Nat)} (h : IsGrouping vs gs)
    {g : List Nat} (hg : g ∈ gs) (hl : g.length = 2) : ∃ i j, g = [i, j] ∧ i < j := by
  match g, hl with
  | [i, j], _ =>
    have h1 := h.nodup hg
    have h2 := h.ascending _ hg
    simp at h1 h2
    exact ⟨i, j, rfl, by omega⟩

/-- the groups of size two are exactly the ascending pairs of positions of a value occurring twice -/
theorem IsGrouping.pair_mem_iff [BEq α] [LawfulBEq α] {vs : List α} {gs : List (List Nat)} (h : IsGrouping vs gs)
    (d : α) (i j : Nat) :
    [i, j] ∈ gs ↔ i < j ∧ j < vs.length ∧ vs[i]? = vs[j]? ∧ vs.count (vs.getD i d) = 2 := by
  constructor
  · intro hg
    obtain ⟨i', j', e, hij⟩ := h.pair_shape hg rfl
    simp only [List.cons.injEq, and_true] at e
    obtain ⟨rfl, rfl⟩ := e
    have hi := h.mem_lt hg (i := i) (by simp)
    have hj := h.mem_lt hg (i := j) (by simp)
    refine ⟨hij, hj, h.same _ hg i (by simp) j (by simp), ?_⟩
    have := h.length_eq_count hg (i := i) (by simp) (x := vs[i]) (by simp [hi])
    rw [List.getD_eq_getElem?_getD, List.getElem?_eq_getElem hi]
    simpa using this.symm
  · rintro ⟨hij, hj, e, hc⟩
    have hi : i < vs.length := by omega
    obtain ⟨g, hg, hig⟩ := h.covers hi
    have hjg : j ∈ g := (h.mem_iff hg hig j).mpr ⟨hj, e.symm⟩
    have hl := h.length_eq_count hg hig (x := vs[i]) (by simp [hi])
    rw [List.getD_eq_getElem?_getD, List.getElem?_eq_getElem hi] at hc
    simp only [Option.getD_some] at hc
    rw [hc] at hl
    obtain ⟨a, b, rfl, hab⟩ := h.pair_shape hg hl
    simp only [List.mem_cons, List.not_mem_nil, or_false] at hig hjg
    have : a = i ∧ b = j := by omega
    rw [← this.1, ← this.2]; exact hg

/-- (#groups of size two) * 2 = #indices iff every group has size two -/
theorem pairs_cover_iff : ∀ (gs : List (List Nat)), (∀ g ∈ gs, g ≠ []) →
    (((gs.filter (fun g => g.length == 2)).length * 2 = gs.flatten.length ↔ ∀ g ∈ gs, g.length = 2) ∧
      (gs.filter (fun g => g.length == 2)).length * 2 ≤ gs.flatten.length)
  | [], _ => by simp
  | g :: t, hne => by
    have ih := pairs_cover_iff t (fun x hx => hne x (List.mem_cons_of_mem _ hx))
    have hg : g.length ≠ 0 := by
      have := hne g (by simp); intro e; exact this (List.length_eq_zero_iff.mp e)
    simp only [List.filter_cons, List.flatten_cons, List.length_append, List.forall_mem_cons]
    by_cases e : g.length = 2
    · simp only [e, beq_self_eq_true, if_true, List.length_cons, true_and]
      constructor
      · rw [← ih.1]; omega
      · omega
    · have e' : (g.length == 2) = false := by simpa using e
      simp only [e', Bool.false_eq_true, if_false, e, false_and, iff_false]
      omega

end TV

namespace TV.Topology
open TV TV.Grouping

/-! ### edges -/

theorem edges_cons (f : Face) (fs : List Face) :
    edges (f :: fs) = (f.1, f.2.1) :: (f.2.1, f.2.2) :: (f.2.2, f.1) :: edges fs := by
  simp [edges]

theorem edges_length (fs : List Face) : (edges fs).length = 3 * fs.length := by
  induction fs with
  | nil => rfl
  | cons f t ih => rw [edges_cons]; simp only [List.length_cons, ih]; omega

theorem edges_getElem? : ∀ (fs : List Face) (i : Nat) (h : i < fs.length),
    (edges fs)[3 * i]? = some (fs[i].1, fs[i].2.1) ∧
    (edges fs)[3 * i + 1]? = some (fs[i].2.1, fs[i].2.2) ∧
    (edges fs)[3 * i + 2]? = some (fs[i].2.2, fs[i].1)
  | f :: t, 0, _ => by simp [edges_cons]
  | f :: t, i + 1, h => by
    have ih := edges_getElem? t i (by simpa using h)
    rw [edges_cons]
    have e0 : 3 * (i + 1) = 3 * i + 3 := by omega
    have e1 : 3 * i + 3 + 1 = 3 * i + 1 + 3 := by omega
    have e2 : 3 * i + 3 + 2 = 3 * i + 2 + 3 := by omega
    have sk : ∀ (a b c : Edge) (l : List Edge) (k : Nat), (a :: b :: c :: l)[k + 3]? = l[k]? := by
      intros; rfl
    rw [e0, e1, e2, sk, sk, sk]
    simp only [List.getElem_cons_succ]
    exact ih

theorem edgesFace_length (fs : List Face) : (edgesFace fs).length = 3 * fs.length := by
  unfold edgesFace
  generalize fs.length = n
  induction n with
  | zero => rfl
  | succ n ih => rw [List.range_succ, List.flatMap_append, List.length_append, ih]; simp; omega

theorem edgesFace_getElem? (fs : List Face) (k : Nat) (h : k < 3 * fs.length) :
    (edgesFace fs)[k]? = some (k / 3) := by
  unfold edgesFace
  generalize fs.length = n at h
  induction n with
  | zero => omega
  | succ n ih =>
    have hl : ((List.range n).flatMap (fun i => [i, i, i])).length = 3 * n := by
      have := edgesFace_length (List.replicate n (0, 0, 0))
      simpa [edgesFace] using this
    rw [List.range_succ, List.flatMap_append]
    by_cases hk : k < 3 * n
    · rw [List.getElem?_append_left (by omega)]; exact ih hk
    · rw [List.getElem?_append_right (by omega), hl]
      have : k - 3 * n = 0 ∨ k - 3 * n = 1 ∨ k - 3 * n = 2 := by omega
      have hd : k / 3 = n := by omega
      rcases this with e | e | e <;> simp [e, hd]


/-! ### the edge grouping -/

theorem edgeRow_inj {a b : Edge} (h : edgeRow a = edgeRow b) : a = b := by
  obtain ⟨a1, a2⟩ := a; obtain ⟨b1, b2⟩ := b
  simp only [edgeRow, List.cons.injEq, Int.natCast_inj, and_true] at h
  rw [h.1, h.2]

/-- the index groups computed on the hashed edge rows group the sorted edges by equality -/
theorem edgeGroups_isGrouping (fs : List Face) :
    IsGrouping (edgesSorted fs) (groupsOf lexLe (hashableRows 2 (edgeRows fs))) := by
  obtain ⟨f, hf, finj⟩ := C06.C06_hashable_faithful 2 (edgeRows fs) (by
    intro r hr; simp only [edgeRows, List.mem_map] at hr
    obtain ⟨e, _, rfl⟩ := hr; rfl)
  have h := groupsOf_isGrouping lexLe_isOrder (hashableRows 2 (edgeRows fs))
  rw [hf] at h ⊢
  have e : (edgeRows fs).map f = (edgesSorted fs).map (f ∘ edgeRow) := by simp [edgeRows]
  rw [e] at h ⊢
  refine IsGrouping.of_map ?_ h
  intro a ha b hb hab
  exact edgeRow_inj (finj _ (List.mem_map_of_mem ha) _ (List.mem_map_of_mem hb) hab)

theorem pairGroups_eq (fs : List Face) :
    pairGroups fs = (groupsOf lexLe (hashableRows 2 (edgeRows fs))).filter (fun g => g.length == 2) := rfl

/-- the groups of `group_rows(edges_sorted, require_count=2)` -/
theorem mem_pairGroups (fs : List Face) (g : List Nat) :
    g ∈ pairGroups fs ↔ ∃ i j, g = [i, j] ∧ i < j ∧ j < (edgesSorted fs).length ∧
      (edgesSorted fs)[i]? = (edgesSorted fs)[j]? ∧
      (edgesSorted fs).count ((edgesSorted fs).getD i (0, 0)) = 2 := by
  have h := edgeGroups_isGrouping fs
  rw [pairGroups_eq, List.mem_filter]
  constructor
  · rintro ⟨hg, hl⟩
    obtain ⟨i, j, rfl, _⟩ := h.pair_shape hg (by simpa using hl)
    exact ⟨i, j, rfl, (h.pair_mem_iff (0, 0) i j).mp hg⟩
  · rintro ⟨i, j, rfl, hh⟩
    exact ⟨(h.pair_mem_iff (0, 0) i j).mpr hh, rfl⟩

theorem mem_drop_take3 {β : Type} (l : List β) (f : Nat) (e : β) :
    e ∈ (l.drop (3 * f)).take 3 ↔ ∃ i, i / 3 = f ∧ l[i]? = some e := by
  rw [List.mem_iff_getElem?]
  constructor
  · rintro ⟨r, hr⟩
    rw [List.getElem?_take] at hr
    split at hr
    · rw [List.getElem?_drop] at hr
      exact ⟨3 * f + r, by omega, hr⟩
    · simp at hr
  · rintro ⟨i, hi, he⟩
    refine ⟨i - 3 * f, ?_⟩
    rw [List.getElem?_take, if_pos (by omega), List.getElem?_drop]
    have : 3 * f + (i - 3 * f) = i := by omega
    rw [this]; exact he

theorem mem_faceAdjacency (fs : List Face) (f g : Nat) (e : Edge) :
    ((f, g), e) ∈ faceAdjacency fs ↔
      f < g ∧ (edgesSorted fs).count e = 2 ∧ e ∈ ((edgesSorted fs).drop (3 * f)).take 3 ∧
        e ∈ ((edgesSorted fs).drop (3 * g)).take 3 := by
  unfold faceAdjacency
  rw [List.mem_filterMap, mem_drop_take3, mem_drop_take3]
  constructor
  · rintro ⟨grp, hgrp, hm⟩
    obtain ⟨i, j, rfl, hij, hj, hsame, hc⟩ := (mem_pairGroups fs grp).mp hgrp
    simp only at hm
    split at hm
    · rename_i hne
      simp only [Option.some.injEq, Prod.mk.injEq] at hm
      obtain ⟨⟨h1, h2⟩, h3⟩ := hm
      have hi : i < (edgesSorted fs).length := by omega
      have hle : i / 3 ≤ j / 3 := Nat.div_le_div_right (by omega)
      rw [List.getD_eq_getElem?_getD, List.getElem?_eq_getElem hi, Option.getD_some] at h3 hc
      refine ⟨by omega, by rw [← h3]; exact hc, ⟨i, by omega, by rw [← h3]; simp [hi]⟩,
        ⟨j, by omega, by rw [← h3, ← hsame]; simp [hi]⟩⟩
    · simp at hm
  · rintro ⟨hfg, hc, ⟨i, hi3, hi⟩, ⟨j, hj3, hj⟩⟩
    have hil : i < (edgesSorted fs).length := (List.getElem?_eq_some_iff.mp hi).1
    have hjl : j < (edgesSorted fs).length := (List.getElem?_eq_some_iff.mp hj).1
    have hij : i < j := by
      rcases Nat.lt_or_ge i j with h | h
      · exact h
      · have := Nat.div_le_div_right (c := 3) h; omega
    have hd : (edgesSorted fs).getD i (0, 0) = e := by
      rw [List.getD_eq_getElem?_getD, hi]; rfl
    refine ⟨[i, j], (mem_pairGroups fs _).mpr ⟨i, j, rfl, hij, hjl, by rw [hi, hj], by rw [hd]; exact hc⟩, ?_⟩
    simp only
    rw [if_pos (by omega), hd]
    simp only [Option.some.injEq, Prod.mk.injEq, and_true]
    omega

/-! ### watertight / winding / adjacency rows -/

theorem edgesSorted_length (fs : List Face) : (edgesSorted fs).length = (edges fs).length := by
  simp [edgesSorted]

theorem getD_of_getElem? {β : Type} {l : List β} {i : Nat} {x d : β} (h : l[i]? = some x) :
    l.getD i d = x := by
  rw [List.getD_eq_getElem?_getD, h]; rfl

theorem isWatertight_iff (fs : List Face) :
    isWatertight fs = true ↔ ∀ e ∈ edgesSorted fs, (edgesSorted fs).count e = 2 := by
  have h := edgeGroups_isGrouping fs
  have hp := pairs_cover_iff _ h.ne_nil
  unfold isWatertight
  rw [beq_iff_eq, pairGroups_eq, ← edgesSorted_length, ← List.length_range (n := (edgesSorted fs).length),
    ← h.perm.length_eq, hp.1]
  constructor
  · intro hall e he
    obtain ⟨i, hi, rfl⟩ := List.mem_iff_getElem.mp he
    obtain ⟨g, hg, hig⟩ := h.covers hi
    rw [← h.length_eq_count hg hig (by simp [hi])]
    exact hall g hg
  · intro hall g hg
    have hne := h.ne_nil g hg
    have hi := headD_mem hne
    have hlt := h.mem_lt hg hi
    rw [h.length_eq_count hg hi (x := (edgesSorted fs)[g.headD 0]) (by simp)]
    exact hall _ (List.getElem_mem hlt)

theorem isWindingConsistent_iff (fs : List Face) :
    isWindingConsistent fs = true ↔
      ∀ i j, i < j → j < (edges fs).length →
        (edgesSorted fs)[i]? = (edgesSorted fs)[j]? →
        (edgesSorted fs).count ((edgesSorted fs).getD i (0, 0)) = 2 →
        ((edges fs).getD i (0, 0)).2 = ((edges fs).getD j (0, 0)).1 := by
  unfold isWindingConsistent
  rw [List.all_eq_true]
  constructor
  · intro hall i j hij hj hs hc
    have := hall [i, j] ((mem_pairGroups fs _).mpr ⟨i, j, rfl, hij, by rw [edgesSorted_length]; exact hj, hs, hc⟩)
    simpa using this
  · intro hall g hg
    obtain ⟨i, j, rfl, hij, hj, hs, hc⟩ := (mem_pairGroups fs g).mp hg
    simpa using hall i j hij (by rw [← edgesSorted_length]; exact hj) hs hc

theorem faceAdjacency_nodup (fs : List Face) : (faceAdjacency fs).Nodup := by
  have h := edgeGroups_isGrouping fs
  have hd : (pairGroups fs).Pairwise
      (fun g g' => ∀ i ∈ g, ∀ j ∈ g', (edgesSorted fs)[i]? ≠ (edgesSorted fs)[j]?) := by
    rw [pairGroups_eq]; exact h.distinct.filter _
  unfold faceAdjacency
  refine List.Pairwise.filterMap _ ?_ (List.Pairwise.and_mem.mp hd)
  rintro g g' ⟨hg, hg', hne⟩ b hb b' hb' ebb
  obtain ⟨i, j, rfl, hij, hj, _, _⟩ := (mem_pairGroups fs g).mp hg
  obtain ⟨i', j', rfl, hij', hj', _, _⟩ := (mem_pairGroups fs g').mp hg'
  simp only at hb hb'
  split at hb
  · split at hb'
    · simp only [Option.some.injEq] at hb hb'
      subst hb; subst hb'
      simp only [Prod.mk.injEq] at ebb
      have hi : i < (edgesSorted fs).length := by omega
      have hi' : i' < (edgesSorted fs).length := by omega
      apply hne i (by simp) i' (by simp)
      have e := ebb.2
      rw [getD_of_getElem? (List.getElem?_eq_getElem hi), getD_of_getElem? (List.getElem?_eq_getElem hi')] at e
      rw [List.getElem?_eq_getElem hi, List.getElem?_eq_getElem hi', e]
    · simp at hb'
  · simp at hb

/-! ### unique edges -/

theorem hashable_edgeRows_length (fs : List Face) :
    (hashableRows 2 (edgeRows fs)).length = (edgesSorted fs).length := by
  have h := (edgeGroups_isGrouping fs).perm.length_eq
  have h' := (groupsOf_isGrouping lexLe_isOrder (hashableRows 2 (edgeRows fs))).perm.length_eq
  rw [h, List.length_range, List.length_range] at h'
  exact h'.symm

theorem uniqueRows_edgeRows (fs : List Face) :
    uniqueRows 2 (edgeRows fs) false =
      uniqueOfGroups (edgesSorted fs).length (groupsOf lexLe (hashableRows 2 (edgeRows fs))) := by
  rw [← hashable_edgeRows_length]; rfl

theorem edgesUnique_eq (fs : List Face) :
    edgesUnique fs = (uniqueOfGroups (edgesSorted fs).length
      (groupsOf lexLe (hashableRows 2 (edgeRows fs)))).1.map (fun i => (edgesSorted fs).getD i (0, 0)) := by
  unfold edgesUnique; rw [uniqueRows_edgeRows]

theorem mem_uniqueOfGroups_lt {α : Type} [DecidableEq α] {vs : List α} {gs : List (List Nat)}
    (h : IsGrouping vs gs) {u : Nat} (hu : u ∈ (uniqueOfGroups vs.length gs).1) : u < vs.length := by
  simp only [uniqueOfGroups] at hu
  obtain ⟨g, hg, rfl⟩ := List.mem_map.mp hu
  exact h.mem_lt hg (headD_mem (h.ne_nil g hg))

theorem edgesUnique_nodup (fs : List Face) : (edgesUnique fs).Nodup := by
  have h := edgeGroups_isGrouping fs
  rw [edgesUnique_eq, List.Nodup, List.pairwise_map]
  refine List.Pairwise.imp_of_mem ?_ h.unique_distinct
  intro u u' hu hu' hne e
  have hl := mem_uniqueOfGroups_lt h hu
  have hl' := mem_uniqueOfGroups_lt h hu'
  apply hne
  rw [getD_of_getElem? (List.getElem?_eq_getElem hl), getD_of_getElem? (List.getElem?_eq_getElem hl')] at e
  rw [List.getElem?_eq_getElem hl, List.getElem?_eq_getElem hl', e]

theorem mem_edgesUnique (fs : List Face) (e : Edge) : e ∈ edgesUnique fs ↔ e ∈ edgesSorted fs := by
  have h := edgeGroups_isGrouping fs
  rw [edgesUnique_eq, List.mem_map]
  constructor
  · rintro ⟨u, hu, rfl⟩
    have hl := mem_uniqueOfGroups_lt h hu
    rw [getD_of_getElem? (List.getElem?_eq_getElem hl)]
    exact List.getElem_mem hl
  · intro he
    obtain ⟨i, hi, rfl⟩ := List.mem_iff_getElem.mp he
    obtain ⟨k, u, _, h2, h3⟩ := h.unique_reconstruct hi
    refine ⟨u, List.mem_of_getElem? h2, ?_⟩
    rw [List.getElem?_eq_getElem hi] at h3
    exact getD_of_getElem? h3

theorem edgesUnique_inverse (fs : List Face) (i : Nat) (hi : i < (edgesSorted fs).length) :
    ∃ k, (edgesUniqueInverse fs)[i]? = some k ∧ (edgesUnique fs)[k]? = (edgesSorted fs)[i]? := by
  have h := edgeGroups_isGrouping fs
  obtain ⟨k, u, h1, h2, h3⟩ := h.unique_reconstruct hi
  refine ⟨k, ?_, ?_⟩
  · unfold edgesUniqueInverse; rw [uniqueRows_edgeRows]; exact h1
  · rw [edgesUnique_eq, List.getElem?_map, h2, Option.map_some]
    rw [List.getElem?_eq_getElem hi] at h3 ⊢
    rw [getD_of_getElem? h3]

/-! ### Euler number -/

theorem mem_corners (fs : List Face) (v : Nat) :
    v ∈ corners fs ↔ ∃ f ∈ fs, f.1 = v ∨ f.2.1 = v ∨ f.2.2 = v := by
  simp only [corners, List.mem_flatMap, List.mem_cons, List.not_mem_nil, or_false]
  constructor
  · rintro ⟨f, hf, h⟩; exact ⟨f, hf, by rcases h with h | h | h <;> simp [h]⟩
  · rintro ⟨f, hf, h⟩; exact ⟨f, hf, by rcases h with h | h | h <;> simp [h]⟩

theorem referenced_count (fs : List Face) (nV : Nat) :
    (referenced fs nV).count true = ((List.range nV).filter (fun v => v ∈ corners fs)).length := by
  unfold referenced
  rw [List.count_eq_countP, List.countP_map, List.countP_eq_length_filter]
  congr 1
  apply List.filter_congr
  intro v _
  simp only [Function.comp, beq_true]
  rw [Bool.eq_iff_iff]
  simp only [List.any_eq_true, Bool.or_eq_true, beq_iff_eq, decide_eq_true_eq, mem_corners, or_assoc]

theorem eulerNumber_eq (fs : List Face) (nV : Nat) :
    eulerNumber fs nV =
      (((List.range nV).filter (fun v => v ∈ corners fs)).length : Int)
        - (((edgesSorted fs).eraseDups).length : Int) + (fs.length : Int) := by
  unfold eulerNumber
  rw [referenced_count, length_eraseDups_eq (edgesUnique_nodup fs) (mem_edgesUnique fs)]

/-! ### vertex degree / vertex faces -/

theorem corners_cons (f : Face) (fs : List Face) :
    corners (f :: fs) = f.1 :: f.2.1 :: f.2.2 :: corners fs := by simp [corners]

theorem cornerFaces_count (v : Nat) (d : Face) (hd : d.1 ≠ v ∧ d.2.1 ≠ v ∧ d.2.2 ≠ v) (f : Nat) :
    ∀ (fs : List Face) (m : Nat),
    ((((corners fs).zipIdx (3 * m)).filter (fun p => p.1 == v)).map (fun p => p.2 / 3)).count f =
      if f < m then 0 else [(fs.getD (f - m) d).1, (fs.getD (f - m) d).2.1, (fs.getD (f - m) d).2.2].count v
  | [], m => by
    simp [corners, hd.1, hd.2.1, hd.2.2]
  | face :: t, m => by
    have ih := cornerFaces_count v d hd f t (m + 1)
    have e3 : 3 * m + 1 + 1 + 1 = 3 * (m + 1) := by omega
    rw [corners_cons]
    simp only [List.zipIdx_cons, e3]
    rw [List.count_eq_countP, List.countP_map, List.countP_filter] at ih ⊢
    simp only [List.countP_cons, Function.comp] at ih ⊢
    rw [ih]
    have d0 : (3 * m) / 3 = m := by omega
    have d1 : (3 * m + 1) / 3 = m := by omega
    have d2 : (3 * m + 1 + 1) / 3 = m := by omega
    rw [d0, d1, d2]
    rcases Nat.lt_trichotomy f m with h | h | h
    · have h1 : f < m + 1 := by omega
      have h2 : ¬ m = f := by omega
      simp [h, h1, h2]
    · subst h
      simp [List.count_cons]
    · have h1 : ¬ f < m + 1 := by omega
      have h2 : ¬ f < m := by omega
      have h3 : ¬ m = f := by omega
      have h4 : f - m = (f - (m + 1)) + 1 := by omega
      simp [h1, h2, h3, h4]

theorem vertexDegree_getElem? (fs : List Face) (nV v : Nat) (hv : v < nV) :
    (vertexDegree fs nV)[v]? = some ((corners fs).count v) := by
  simp [vertexDegree, hv]

theorem vertexFaces_spec (fs : List Face) (nV v : Nat) (hv : v < nV) :
    ∃ l, (vertexFaces fs nV)[v]? = some l ∧ l.length = (corners fs).count v ∧
      ∀ f, l.count f = ([(fs.getD f (nV, nV, nV)).1, (fs.getD f (nV, nV, nV)).2.1,
                         (fs.getD f (nV, nV, nV)).2.2]).count v := by
  refine ⟨(((corners fs).zipIdx.filter (fun p => p.1 == v)).map (fun p => p.2 / 3)),
    by simp only [vertexFaces, List.getElem?_map, List.getElem?_range hv, Option.map_some], ?_, ?_⟩
  · rw [List.length_map, ← List.countP_eq_length_filter, List.count_eq_countP]
    have : (corners fs) = ((corners fs).zipIdx).map (·.1) := by rw [List.zipIdx_map_fst]
    conv => rhs; rw [this, List.countP_map]
    rfl
  · intro f
    have := cornerFaces_count v (nV, nV, nV) (by simp; omega) f fs 0
    simpa using this

/-! ### vertex neighbours -/

theorem edgesSorted_le (fs : List Face) (e : Edge) (he : e ∈ edgesSorted fs) : e.1 ≤ e.2 := by
  simp only [edgesSorted, List.mem_map] at he
  obtain ⟨e', _, rfl⟩ := he
  simp only [sortEdge]; omega

theorem vertexNeighbors_spec (fs : List Face) (nV v w : Nat) (hv : v < nV) :
    ∃ l, (vertexNeighbors fs nV)[v]? = some l ∧ l.Nodup ∧
      (w ∈ l ↔ sortEdge (v, w) ∈ edgesSorted fs) := by
  refine ⟨((((edgesUnique fs).filterMap (fun e =>
        if e.1 = v then some e.2 else if e.2 = v then some e.1 else none)).mergeSort
      (fun a b => decide (a ≤ b))).eraseDups),
    by simp only [vertexNeighbors, List.getElem?_map, List.getElem?_range hv, Option.map_some],
    eraseDups_nodup _, ?_⟩
  rw [List.mem_eraseDups, List.mem_mergeSort, List.mem_filterMap]
  constructor
  · rintro ⟨e, he, hm⟩
    rw [mem_edgesUnique] at he
    have hle := edgesSorted_le fs e he
    obtain ⟨e1, e2⟩ := e
    simp only at hm hle
    split at hm
    · rename_i h1
      simp only [Option.some.injEq] at hm
      subst h1; subst hm
      have : sortEdge (e1, e2) = (e1, e2) := by simp only [sortEdge, Prod.mk.injEq]; omega
      rw [this]; exact he
    · split at hm
      · rename_i h1 h2
        simp only [Option.some.injEq] at hm
        subst h2; subst hm
        have : sortEdge (e2, e1) = (e1, e2) := by simp only [sortEdge, Prod.mk.injEq]; omega
        rw [this]; exact he
      · simp at hm
  · intro he
    refine ⟨sortEdge (v, w), (mem_edgesUnique fs _).mpr he, ?_⟩
    by_cases h : v ≤ w
    · have : sortEdge (v, w) = (v, w) := by simp only [sortEdge, Prod.mk.injEq]; omega
      rw [this]; simp
    · have : sortEdge (v, w) = (w, v) := by simp only [sortEdge, Prod.mk.injEq]; omega
      have hne : ¬ w = v := by omega
      rw [this]; simp [hne]

/-! ### connected components by label relaxation -/

/-- connectivity of nodes `< n` through the (undirected) edge list (same as `C05.Conn`) -/
inductive Reach (n : Nat) (es : List (Nat × Nat)) : Nat → Nat → Prop where
  | refl (a : Nat) : Reach n es a a
  | step {a b c : Nat} : Reach n es a b →
      ((b, c) ∈ es ∨ (c, b) ∈ es) → b < n → c < n → Reach n es a c

variable {n : Nat} {es : List (Nat × Nat)}

theorem Reach.head {a b c : Nat} (he : (a, b) ∈ es ∨ (b, a) ∈ es) (ha : a < n) (hb : b < n)
    (h : Reach n es b c) : Reach n es a c := by
  induction h with
  | refl => exact .step (.refl a) he ha hb
  | step _ he' hb' hc' ih => exact .step ih he' hb' hc'

theorem Reach.symm {a b : Nat} (h : Reach n es a b) : Reach n es b a := by
  induction h with
  | refl => exact .refl _
  | step _ he hb hc ih => exact Reach.head he.symm hc hb ih

theorem Reach.trans {a b c : Nat} (h1 : Reach n es a b) (h2 : Reach n es b c) : Reach n es a c := by
  induction h2 with
  | refl => exact h1
  | step _ he hb hc ih => exact .step ih he hb hc

/-- a non-empty predicate on `Nat` has a least element -/
theorem exists_least (P : Nat → Prop) : ∀ k, P k → ∃ m, P m ∧ ∀ x, P x → m ≤ x := by
  intro k
  induction k using Nat.strongRecOn with
  | _ k ih =>
    intro hk
    by_cases h : ∃ x, x < k ∧ P x
    · obtain ⟨x, hx, hpx⟩ := h; exact ih x hx hpx
    · refine ⟨k, hk, fun x hx => ?_⟩
      rcases Nat.lt_or_ge x k with h' | h'
      · exact absurd ⟨x, h', hx⟩ h
      · exact h'

def relaxStep (l : List Nat) (e : Nat × Nat) : List Nat :=
  if e.1 < l.length ∧ e.2 < l.length then
    let m := min (l.getD e.1 0) (l.getD e.2 0)
    (l.set e.1 m).set e.2 m
  else l

theorem relax_eq (es : List (Nat × Nat)) (lab : List Nat) : relax es lab = es.foldl relaxStep lab := rfl

theorem relaxStep_length (l : List Nat) (e : Nat × Nat) : (relaxStep l e).length = l.length := by
  unfold relaxStep; split <;> simp

theorem relaxStep_getD (l : List Nat) (e : Nat × Nat) (v : Nat) :
    (relaxStep l e).getD v 0 =
      if e.1 < l.length ∧ e.2 < l.length ∧ (v = e.1 ∨ v = e.2) then min (l.getD e.1 0) (l.getD e.2 0)
      else l.getD v 0 := by
  unfold relaxStep
  by_cases h : e.1 < l.length ∧ e.2 < l.length
  · rw [if_pos h]
    simp only [List.getD_eq_getElem?_getD, List.getElem?_set, List.length_set]
    by_cases h2 : e.2 = v
    · subst h2; simp [h.1, h.2]
    · by_cases h1 : e.1 = v
      · subst h1; simp [h.1, h.2, h2]
      · have : ¬ (v = e.1 ∨ v = e.2) := by omega
        simp [h1, h2, this]
  · rw [if_neg h, if_neg (by intro h'; exact h ⟨h'.1, h'.2.1⟩)]


/-- invariant of the label vector: each label is a node of the same component, not above the node -/
structure LabInv (n : Nat) (es : List (Nat × Nat)) (l : List Nat) : Prop where
  len : l.length = n
  le_self : ∀ v, v < n → l.getD v 0 ≤ v
  reach : ∀ v, v < n → Reach n es v (l.getD v 0)

theorem relaxStep_le (l : List Nat) (e : Nat × Nat) (v : Nat) :
    (relaxStep l e).getD v 0 ≤ l.getD v 0 := by
  rw [relaxStep_getD]
  split
  · rename_i h
    rcases h.2.2 with rfl | rfl
    · exact Nat.min_le_left _ _
    · exact Nat.min_le_right _ _
  · exact Nat.le_refl _

theorem relaxStep_inv {l : List Nat} {e : Nat × Nat} (he : e ∈ es) (h : LabInv n es l) :
    LabInv n es (relaxStep l e) := by
  refine ⟨by rw [relaxStep_length, h.len], ?_, ?_⟩
  · intro v hv; exact Nat.le_trans (relaxStep_le l e v) (h.le_self v hv)
  · intro v hv
    rw [relaxStep_getD]
    split
    · rename_i hc
      rw [h.len] at hc
      have hedge : Reach n es e.1 e.2 := .step (.refl _) (Or.inl he) hc.1 hc.2.1
      rcases Nat.le_total (l.getD e.1 0) (l.getD e.2 0) with hle | hle
      · rw [Nat.min_eq_left hle]
        rcases hc.2.2 with rfl | rfl
        · exact h.reach _ hc.1
        · exact hedge.symm.trans (h.reach _ hc.1)
      · rw [Nat.min_eq_right hle]
        rcases hc.2.2 with rfl | rfl
        · exact hedge.trans (h.reach _ hc.2.1)
        · exact h.reach _ hc.2.1
    · exact h.reach v hv

/-- one sweep: invariant kept, labels only decrease, and across every edge the label of one end
    drops to at most the old label of the other end -/
theorem sweep_spec : ∀ (es' : List (Nat × Nat)), (∀ e ∈ es', e ∈ es) → ∀ l, LabInv n es l →
    LabInv n es (es'.foldl relaxStep l) ∧
    (∀ v, (es'.foldl relaxStep l).getD v 0 ≤ l.getD v 0) ∧
    (∀ b c, ((b, c) ∈ es' ∨ (c, b) ∈ es') → b < n → c < n →
      (es'.foldl relaxStep l).getD c 0 ≤ l.getD b 0)
  | [], _, l, h => ⟨h, fun _ => Nat.le_refl _, by simp⟩
  | e :: t, hsub, l, h => by
    have hinv := relaxStep_inv (hsub e (by simp)) h
    obtain ⟨i1, i2, i3⟩ := sweep_spec t (fun x hx => hsub x (List.mem_cons_of_mem _ hx)) _ hinv
    simp only [List.foldl_cons]
    refine ⟨i1, fun v => Nat.le_trans (i2 v) (relaxStep_le l e v), ?_⟩
    intro b c hbc hb hc
    have hstep : ∀ x y, e = (x, y) → x < n → y < n →
        (relaxStep l e).getD x 0 ≤ l.getD y 0 ∧ (relaxStep l e).getD y 0 ≤ l.getD x 0 := by
      intro x y hxy hx hy
      subst hxy
      rw [relaxStep_getD, relaxStep_getD, h.len]
      simp only [hx, hy, true_and, true_or, or_true, if_true]
      exact ⟨Nat.min_le_right _ _, Nat.min_le_left _ _⟩
    simp only [List.mem_cons] at hbc
    rcases hbc with (hbc | hbc) | (hbc | hbc)
    · exact Nat.le_trans (i2 c) (hstep b c hbc.symm hb hc).2
    · exact Nat.le_trans (i3 b c (Or.inl hbc) hb hc) (relaxStep_le l e b)
    · exact Nat.le_trans (i2 c) (hstep c b hbc.symm hc hb).1
    · exact Nat.le_trans (i3 b c (Or.inr hbc) hb hc) (relaxStep_le l e b)


/-- the label of `v` is the least node of its component -/
def Correct (n : Nat) (es : List (Nat × Nat)) (l : List Nat) (v : Nat) : Prop :=
  ∀ a, Reach n es a v → l.getD v 0 ≤ a

theorem Correct.mono {l l' : List Nat} {v : Nat} (h : Correct n es l v)
    (hle : l'.getD v 0 ≤ l.getD v 0) : Correct n es l' v :=
  fun a ha => Nat.le_trans hle (h a ha)

/-- if some node is not yet correct, some edge leads from a correct node to an incorrect one -/
theorem exists_frontier {l : List Nat} (h : LabInv n es l) {v : Nat} (hv : v < n)
    (hnc : ¬ Correct n es l v) :
    ∃ b c, ((b, c) ∈ es ∨ (c, b) ∈ es) ∧ b < n ∧ c < n ∧ Correct n es l b ∧ ¬ Correct n es l c := by
  obtain ⟨m, hm, hleast⟩ := exists_least (fun x => Reach n es x v) v (.refl v)
  have hmv : m ≤ v := hleast v (.refl v)
  have hcm : Correct n es l m := fun a ha =>
    Nat.le_trans (h.le_self m (by omega)) (hleast a (ha.trans hm))
  have aux : ∀ x, Reach n es m x → ¬ Correct n es l x →
      ∃ b c, ((b, c) ∈ es ∨ (c, b) ∈ es) ∧ b < n ∧ c < n ∧ Correct n es l b ∧ ¬ Correct n es l c := by
    intro x hx
    induction hx with
    | refl => intro hn; exact absurd hcm hn
    | @step b c _ he hb hc ih =>
      intro hn
      by_cases hcb : Correct n es l b
      · exact ⟨b, c, he, hb, hc, hcb, hn⟩
      · exact ih hcb
  exact aux v hm hnc

/-- a sweep makes the far end of every edge out of a correct node correct -/
theorem sweep_correct {l : List Nat} (h : LabInv n es l) {b c : Nat}
    (he : (b, c) ∈ es ∨ (c, b) ∈ es) (hb : b < n) (hc : c < n) (hcb : Correct n es l b) :
    Correct n es (relax es l) c := by
  intro a ha
  have hab : Reach n es a b := .step ha he.symm hc hb
  exact Nat.le_trans ((sweep_spec es (fun _ h => h) l h).2.2 b c he hb hc) (hcb a hab)

theorem countP_lt_countP {β : Type} {p q : β → Bool} : ∀ (xs : List β), (∀ x ∈ xs, p x = true → q x = true) →
    (∃ x ∈ xs, q x = true ∧ ¬ p x = true) → xs.countP p < xs.countP q
  | [], _, h => by simp at h
  | x :: t, hpq, hex => by
    have hmono := List.countP_mono_left (l := t) (fun y hy => hpq y (List.mem_cons_of_mem _ hy))
    simp only [List.countP_cons]
    obtain ⟨y, hy, hqy, hpy⟩ := hex
    rcases List.mem_cons.mp hy with rfl | hy'
    · have hpy' : p y = false := by simpa using hpy
      simp only [hqy, hpy']; simp only [if_true, Bool.false_eq_true, if_false]; omega
    · have ih := countP_lt_countP t (fun y hy => hpq y (List.mem_cons_of_mem _ hy)) ⟨y, hy', hqy, hpy⟩
      have := hpq x (by simp)
      cases hpx : p x
      · cases hqx : q x <;> simp <;> omega
      · rw [this hpx]; simp; omega

open Classical in
/-- number of correct nodes -/
noncomputable def correctCount (n : Nat) (es : List (Nat × Nat)) (l : List Nat) : Nat :=
  (List.range n).countP (fun v => decide (Correct n es l v))

theorem correctCount_le (l : List Nat) : correctCount n es l ≤ n := by
  have := List.countP_le_length (p := fun v => @decide (Correct n es l v) (Classical.propDecidable _))
    (l := List.range n)
  simpa [correctCount] using this

theorem all_correct_of_count {l : List Nat} (h : n ≤ correctCount n es l) :
    ∀ v, v < n → Correct n es l v := by
  intro v hv
  have h1 : correctCount n es l = (List.range n).length := by
    have := correctCount_le (n := n) (es := es) l; rw [List.length_range]; omega
  unfold correctCount at h1
  have := List.countP_eq_length.mp h1 v (List.mem_range.mpr hv)
  simpa using this

/-- one sweep either finds everything correct already or makes one more node correct -/
theorem sweep_progress {l : List Nat} (h : LabInv n es l) :
    (∀ v, v < n → Correct n es l v) ∨ correctCount n es l + 1 ≤ correctCount n es (relax es l) := by
  by_cases hall : ∀ v, v < n → Correct n es l v
  · exact Or.inl hall
  · right
    have hex : ∃ v, v < n ∧ ¬ Correct n es l v := by
      apply Classical.byContradiction
      intro hne
      apply hall
      intro v hv
      apply Classical.byContradiction
      intro hc
      exact hne ⟨v, hv, hc⟩
    obtain ⟨v, hv, hnc⟩ := hex
    obtain ⟨b, c, he, hb, hc, hcb, hncc⟩ := exists_frontier h hv hnc
    have hs := sweep_spec es (fun _ h => h) l h
    unfold correctCount
    apply countP_lt_countP
    · intro x _ hx
      simp only [decide_eq_true_eq] at hx ⊢
      exact hx.mono (hs.2.1 x)
    · exact ⟨c, List.mem_range.mpr hc, by simpa using sweep_correct h he hb hc hcb, by simpa using hncc⟩

theorem iterate_spec : ∀ (xs : List Nat) (l : List Nat), LabInv n es l →
    LabInv n es (xs.foldl (fun l _ => relax es l) l) ∧
    (∀ v, (xs.foldl (fun l _ => relax es l) l).getD v 0 ≤ l.getD v 0) ∧
    ((∀ v, v < n → Correct n es (xs.foldl (fun l _ => relax es l) l) v) ∨
      correctCount n es l + xs.length ≤ correctCount n es (xs.foldl (fun l _ => relax es l) l))
  | [], l, h => ⟨h, fun _ => Nat.le_refl _, Or.inr (Nat.le_refl _)⟩
  | _ :: t, l, h => by
    have hs := sweep_spec es (fun _ h => h) l h
    obtain ⟨i1, i2, i3⟩ := iterate_spec t (relax es l) hs.1
    simp only [List.foldl_cons, List.length_cons]
    refine ⟨i1, fun v => Nat.le_trans (i2 v) (hs.2.1 v), ?_⟩
    rcases i3 with i3 | i3
    · exact Or.inl i3
    · rcases sweep_progress h with hp | hp
      · exact Or.inl (fun v hv => (hp v hv).mono (Nat.le_trans (i2 v) (hs.2.1 v)))
      · right; omega

theorem labInv_range (n : Nat) (es : List (Nat × Nat)) : LabInv n es (List.range n) := by
  refine ⟨List.length_range, ?_, ?_⟩
  · intro v hv; simp [List.getD_eq_getElem?_getD, List.getElem?_range hv]
  · intro v hv
    have : (List.range n).getD v 0 = v := by simp [List.getD_eq_getElem?_getD, List.getElem?_range hv]
    rw [this]; exact .refl v

/-- after `n` sweeps two nodes carry the same label iff they are connected -/
theorem labels_spec (n : Nat) (es : List (Nat × Nat)) :
    (labels n es).length = n ∧
    ∀ a b, a < n → b < n → ((labels n es).getD a 0 = (labels n es).getD b 0 ↔ Reach n es a b) := by
  obtain ⟨hinv, _, hc⟩ := iterate_spec (List.range n) (List.range n) (labInv_range n es)
  have hcorr : ∀ v, v < n → Correct n es (labels n es) v := by
    rcases hc with hc | hc
    · exact hc
    · rw [List.length_range] at hc
      exact all_correct_of_count (by unfold labels; omega)
  have hinv' : LabInv n es (labels n es) := hinv
  refine ⟨hinv'.len, ?_⟩
  intro a b ha hb
  constructor
  · intro e
    have h1 := hinv'.reach a ha
    have h2 := hinv'.reach b hb
    rw [e] at h1
    exact h1.trans h2.symm
  · intro hab
    have h1 : (labels n es).getD a 0 ≤ (labels n es).getD b 0 :=
      hcorr a ha _ ((hinv'.reach b hb).symm.trans hab.symm)
    have h2 : (labels n es).getD b 0 ≤ (labels n es).getD a 0 :=
      hcorr b hb _ ((hinv'.reach a ha).symm.trans hab)
    omega

theorem components_spec (n : Nat) (es : List (Nat × Nat)) (a b : Nat) (ha : a < n) (hb : b < n) :
    ((∃ g ∈ components n es 1, a ∈ g ∧ b ∈ g) ↔ Reach n es a b) ∧
    (components n es 1).flatten.count a = 1 := by
  obtain ⟨hlen, hspec⟩ := labels_spec n es
  have h := groupsOf_isGrouping natLe_isOrder (labels n es)
  have hc : components n es 1 = groupsOf natLe (labels n es) := by
    unfold components group
    rw [List.filter_eq_self]
    intro g hg
    have := h.ne_nil g hg
    cases g with
    | nil => exact absurd rfl this
    | cons x t => simp [lenOk]
  rw [hc]
  refine ⟨?_, h.count_one (by omega)⟩
  rw [h.iff_same_group (by omega) (by omega), ← hspec a b ha hb]
  simp [List.getD_eq_getElem?_getD, hlen, ha, hb]

end TV.Topology
