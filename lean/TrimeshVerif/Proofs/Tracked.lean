import TrimeshVerif.Model.Tracked
namespace TV.Tracked

end TV.Tracked
