import TrimeshVerif.Model.Tracked
namespace TV.Tracked

/-! ### decidability (for the concrete witnesses) -/

instance (h : Heap) (o : Obj) : Decidable (FreshObj h o) := by unfold FreshObj; exact inferInstance
instance (h : Heap) : Decidable (Fresh h) := by unfold Fresh; exact inferInstance

/-! ### list helpers -/

theorem mem_modify {α} {l : List α} {i : Nat} {f : α → α} {x : α} (hx : x ∈ l.modify i f) :
    ∃ j y, l[j]? = some y ∧ ((j = i ∧ x = f y) ∨ (j ≠ i ∧ x = y)) := by
  obtain ⟨j, hj⟩ := List.mem_iff_getElem?.1 hx
  rw [List.getElem?_modify] at hj
  cases hy : l[j]? with
  | none => simp [hy] at hj
  | some y =>
    refine ⟨j, y, hy, ?_⟩
    simp only [hy, Option.map_eq_map, Option.map_some, Option.some.injEq] at hj
    by_cases hij : i = j
    · left; simp [hij] at hj; exact ⟨hij.symm, hj.symm⟩
    · right; simp [hij] at hj; exact ⟨fun e => hij e.symm, hj.symm⟩

theorem setCells_getElem?_of_not_mem (ps : List Nat) (vals : List Int) (buf : List Int) (p : Nat)
    (hp : p ∉ ps) : (setCells buf ps vals)[p]? = buf[p]? := by
  unfold setCells
  induction ps generalizing buf vals with
  | nil => simp
  | cons q ps ih =>
    cases vals with
    | nil => simp
    | cons v vals =>
      simp only [List.mem_cons, not_or] at hp
      simp only [List.zip_cons_cons, List.foldl_cons]
      rw [ih vals _ hp.2, List.getElem?_set_ne (fun e => hp.1 e.symm)]

/-- a write to the cells `ps` of buffer `b` is invisible at cell `p` of buffer `k` unless `k = b ∧ p ∈ ps` -/
theorem getD_modify_setCells (bufs : List (List Int)) (b : Nat) (ps : List Nat) (vals : List Int)
    (k p : Nat) (h : k ≠ b ∨ p ∉ ps) :
    ((bufs.modify b (fun x => setCells x ps vals)).getD k []).getD p 0 = (bufs.getD k []).getD p 0 := by
  simp only [List.getD_eq_getElem?_getD, List.getElem?_modify]
  cases hk : bufs[k]? with
  | none => simp
  | some x =>
    by_cases hbk : b = k
    · have hp : p ∉ ps := by
        rcases h with h | h
        · exact absurd hbk.symm h
        · exact h
      simp [hbk, setCells_getElem?_of_not_mem ps vals x p hp]
    · simp [hbk]

/-! ### bytes and freshness transfer -/

theorem bytesOf_congr {h h' : Heap} {o o' : Obj} (hw : o.window = o'.window)
    (hb : ∀ p ∈ o.window, (h.bufs.getD o.buf []).getD p 0 = (h'.bufs.getD o'.buf []).getD p 0) :
    bytesOf h o = bytesOf h' o' := by
  unfold bytesOf
  rw [← hw]
  exact List.map_congr_left hb

theorem bytesOf_of_bufs_eq {h h' : Heap} (o : Obj) (hb : h'.bufs = h.bufs) : bytesOf h' o = bytesOf h o := by
  unfold bytesOf; rw [hb]

theorem freshObj_of_dirty {h : Heap} {o : Obj} (hd : o.dirty = true) : FreshObj h o :=
  fun _ => Or.inl hd

theorem freshObj_of_bytes_eq {h h' : Heap} {o : Obj} (hb : bytesOf h' o = bytesOf h o)
    (hf : FreshObj h o) : FreshObj h' o := by
  intro ht
  rw [hb]
  exact hf ht

/-- setting dirty flags on some objects and keeping the bytes of the old objects keeps freshness -/
theorem fresh_modify_dirty {h h' : Heap} {i : Nat} (hf : Fresh h)
    (hobjs : h'.objs = h.objs.modify i (fun o => { o with dirty := true }))
    (hb : ∀ o ∈ h.objs, bytesOf h' o = bytesOf h o) : Fresh h' := by
  intro o ho
  rw [hobjs] at ho
  obtain ⟨j, y, hy, hc⟩ := mem_modify ho
  rcases hc with ⟨_, rfl⟩ | ⟨_, rfl⟩
  · exact freshObj_of_dirty rfl
  · have hm : o ∈ h.objs := List.mem_iff_getElem?.2 ⟨j, hy⟩
    exact freshObj_of_bytes_eq (hb o hm) (hf o hm)

theorem fresh_of_objs_eq {h h' : Heap} (hf : Fresh h) (hobjs : h'.objs = h.objs)
    (hb : ∀ o ∈ h.objs, bytesOf h' o = bytesOf h o) : Fresh h' := by
  intro o ho
  rw [hobjs] at ho
  exact freshObj_of_bytes_eq (hb o ho) (hf o ho)

/-- appending a dirty object -/
theorem fresh_append_dirty {h' : Heap} {objs : List Obj} {o' : Obj} (hd : o'.dirty = true)
    (hobjs : h'.objs = objs ++ [o']) (hf : ∀ o ∈ objs, FreshObj h' o) : Fresh h' := by
  intro o ho
  rw [hobjs, List.mem_append, List.mem_singleton] at ho
  rcases ho with ho | rfl
  · exact hf o ho
  · exact freshObj_of_dirty hd

/-! ### the four operations -/

theorem write_fresh (flagged : List String) (h : Heap) (i : Nat) (route : Route) (cells : List Nat)
    (vals : List Int) (hf : Fresh h) (hs : SafeWrite flagged h i route cells = true) :
    Fresh (step flagged h (.write i route cells vals)).2 := by
  unfold SafeWrite at hs
  cases hi : h.objs[i]? with
  | none => simp only [step, hi]; exact hf
  | some o =>
    simp only [hi, Bool.and_eq_true, List.all_eq_true, List.mem_range] at hs
    obtain ⟨hflag, hall⟩ := hs
    have hflag' : (o.tracked && routeFlags flagged route) = true := by simpa using hflag
    simp only [step, hi, hflag', if_true]
    intro x hx
    simp only [modifyObj] at hx
    obtain ⟨j, y, hy, hc⟩ := mem_modify hx
    rcases hc with ⟨_, rfl⟩ | ⟨hji, rfl⟩
    · exact freshObj_of_dirty rfl
    · have hm : x ∈ h.objs := List.mem_iff_getElem?.2 ⟨j, hy⟩
      have hjlt : j < h.objs.length := by
        rcases Nat.lt_or_ge j h.objs.length with hlt | hge
        · exact hlt
        · rw [List.getElem?_eq_none hge] at hy; cases hy
      have hj := hall j hjlt
      simp only [hy, Bool.or_eq_true, beq_iff_eq, hji, false_or, Bool.not_eq_true',
        Option.isNone_iff_eq_none] at hj
      intro ht
      rcases hj with ((hj | hj) | hj) | hj
      · rw [ht] at hj; cases hj
      · exact Or.inl hj
      · exact Or.inr (Or.inl hj)
      · have hb : bytesOf (modifyObj { h with bufs := h.bufs.modify o.buf (fun b => setCells b
            (cells.filterMap (o.window[·]?)) vals) } i (fun o => { o with dirty := true })) x = bytesOf h x := by
          apply bytesOf_congr rfl
          intro p hp
          simp only [modifyObj]
          apply getD_modify_setCells
          by_cases hbuf : x.buf = o.buf
          · right
            intro hpin
            have : (List.any (cells.filterMap (o.window[·]?)) fun p => sees x o.buf p) = true := by
              rw [List.any_eq_true]
              exact ⟨p, hpin, by simp [sees, hbuf, hp]⟩
            rw [this] at hj; cases hj
          · left; exact hbuf
        rw [hb]
        exact hf x hm ht

/-- the conditional "mark the source dirty" of `view` / `copy` -/
theorem mark_bufs (c : Prop) [Decidable c] (h : Heap) (i : Nat) (f : Obj → Obj) :
    (if c then modifyObj h i f else h).bufs = h.bufs := by
  split <;> rfl

theorem mem_mark {c : Prop} [Decidable c] {h : Heap} {i : Nat} {x : Obj}
    (hx : x ∈ (if c then modifyObj h i (fun o => { o with dirty := true }) else h).objs) :
    ∃ y ∈ h.objs, x.buf = y.buf ∧ (x.dirty = true ∨ x = y) := by
  split at hx
  · simp only [modifyObj] at hx
    obtain ⟨j, y, hy, hc⟩ := mem_modify hx
    have hm : y ∈ h.objs := List.mem_iff_getElem?.2 ⟨j, hy⟩
    rcases hc with ⟨_, rfl⟩ | ⟨_, rfl⟩
    · exact ⟨y, hm, rfl, Or.inl rfl⟩
    · exact ⟨x, hm, rfl, Or.inr rfl⟩
  · exact ⟨x, hx, rfl, Or.inr rfl⟩

theorem view_fresh (flagged : List String) (h : Heap) (i : Nat) (sel : List Nat) (tracked : Bool)
    (hf : Fresh h) : Fresh (step flagged h (.view i sel tracked)).2 := by
  cases hi : h.objs[i]? with
  | none => simp only [step, hi]; exact hf
  | some o =>
    simp only [step, hi, mark_bufs]
    refine fresh_append_dirty rfl rfl ?_
    intro x hx
    obtain ⟨y, hy, _, hd | rfl⟩ := mem_mark hx
    · exact freshObj_of_dirty hd
    · exact freshObj_of_bytes_eq rfl (hf x hy)

theorem hash_fresh (flagged : List String) (h : Heap) (i : Nat) (hf : Fresh h) :
    Fresh (step flagged h (.hash i)).2 := by
  cases hi : h.objs[i]? with
  | none => simp only [step, hi]; exact hf
  | some o =>
    simp only [step, hi]
    split
    · exact hf
    · split
      · exact hf
      · intro x hx
        simp only [modifyObj] at hx
        obtain ⟨j, y, hy, hc⟩ := mem_modify hx
        rcases hc with ⟨rfl, rfl⟩ | ⟨_, rfl⟩
        · rw [hi] at hy
          cases hy
          exact fun _ => Or.inr (Or.inr rfl)
        · have hm : x ∈ h.objs := List.mem_iff_getElem?.2 ⟨j, hy⟩
          exact freshObj_of_bytes_eq rfl (hf x hm)

/-- `copy` appends a buffer: objects whose buffer index is in range keep their bytes -/
theorem copy_fresh (flagged : List String) (h : Heap) (i : Nat) (hf : Fresh h)
    (hw : ∀ o ∈ h.objs, o.buf < h.bufs.length) : Fresh (step flagged h (.copy i)).2 := by
  cases hi : h.objs[i]? with
  | none => simp only [step, hi]; exact hf
  | some o =>
    simp only [step, hi, mark_bufs]
    refine fresh_append_dirty rfl rfl ?_
    have hb : ∀ (objs : List Obj) (x : Obj), x ∈ h.objs →
        bytesOf ⟨h.bufs ++ [bytesOf h o], objs⟩ x = bytesOf h x := by
      intro objs x hx
      apply bytesOf_congr rfl
      intro p _
      simp only [List.getD_eq_getElem?_getD, List.getElem?_append_left (hw x hx)]
    intro x hx
    obtain ⟨y, hy, _, hd | rfl⟩ := mem_mark hx
    · exact freshObj_of_dirty hd
    · exact freshObj_of_bytes_eq (hb _ x hy) (hf x hy)

/-! ### well-formed heaps: every object points at an existing buffer -/

/-- one step keeps every object fresh on a heap whose objects all point at existing buffers -/
theorem step_fresh_wf (flagged : List String) (h : Heap) (op : Op) (hf : Fresh h)
    (hw : ∀ o ∈ h.objs, o.buf < h.bufs.length)
    (hs : (match op with
      | .write i route cells _ => SafeWrite flagged h i route cells
      | _ => true) = true) : Fresh (step flagged h op).2 := by
  cases op with
  | write i route cells vals => exact write_fresh flagged h i route cells vals hf hs
  | view i sel tracked => exact view_fresh flagged h i sel tracked hf
  | copy i => exact copy_fresh flagged h i hf hw
  | hash i => exact hash_fresh flagged h i hf

/-- one step keeps every object fresh unless it is a `copy` -/
theorem step_fresh_of_not_copy (flagged : List String) (h : Heap) (op : Op) (hf : Fresh h)
    (hc : ∀ i, op ≠ .copy i)
    (hs : (match op with
      | .write i route cells _ => SafeWrite flagged h i route cells
      | _ => true) = true) : Fresh (step flagged h op).2 := by
  cases op with
  | write i route cells vals => exact write_fresh flagged h i route cells vals hf hs
  | view i sel tracked => exact view_fresh flagged h i sel tracked hf
  | copy i => exact absurd rfl (hc i)
  | hash i => exact hash_fresh flagged h i hf

theorem modify_buf_lt {objs : List Obj} {i n : Nat} {f : Obj → Obj} (hfb : ∀ o, (f o).buf = o.buf)
    (hw : ∀ o ∈ objs, o.buf < n) : ∀ o ∈ objs.modify i f, o.buf < n := by
  intro x hx
  obtain ⟨j, y, hy, hc⟩ := mem_modify hx
  have hm : y ∈ objs := List.mem_iff_getElem?.2 ⟨j, hy⟩
  rcases hc with ⟨_, rfl⟩ | ⟨_, rfl⟩
  · rw [hfb]; exact hw y hm
  · exact hw x hm

/-- every step keeps the heap well formed -/
theorem step_wf (flagged : List String) (h : Heap) (op : Op)
    (hw : ∀ o ∈ h.objs, o.buf < h.bufs.length) :
    ∀ o ∈ (step flagged h op).2.objs, o.buf < (step flagged h op).2.bufs.length := by
  cases op with
  | write i route cells vals =>
    cases hi : h.objs[i]? with
    | none => simp only [step, hi]; exact hw
    | some o =>
      simp only [step, hi]
      intro x hx
      have hlen : ∀ (b : Bool), (if b = true then modifyObj { h with bufs := h.bufs.modify o.buf (fun b => setCells b
          (cells.filterMap (o.window[·]?)) vals) } i (fun o => { o with dirty := true }) else
          { h with bufs := h.bufs.modify o.buf (fun b => setCells b
          (cells.filterMap (o.window[·]?)) vals) }).bufs.length = h.bufs.length := by
        intro b; rw [mark_bufs]; simp
      rw [hlen]
      obtain ⟨y, hy, hb, _⟩ := mem_mark hx
      rw [hb]; exact hw y hy
  | view i sel tracked =>
    cases hi : h.objs[i]? with
    | none => simp only [step, hi]; exact hw
    | some o =>
      have ho : o.buf < h.bufs.length := hw o (List.mem_iff_getElem?.2 ⟨i, hi⟩)
      simp only [step, hi, mark_bufs]
      intro x hx
      rw [List.mem_append, List.mem_singleton] at hx
      rcases hx with hx | rfl
      · obtain ⟨y, hy, hb, _⟩ := mem_mark hx
        rw [hb]; exact hw y hy
      · exact ho
  | copy i =>
    cases hi : h.objs[i]? with
    | none => simp only [step, hi]; exact hw
    | some o =>
      simp only [step, hi, mark_bufs, List.length_append, List.length_singleton]
      intro x hx
      rw [List.mem_append, List.mem_singleton] at hx
      rcases hx with hx | rfl
      · obtain ⟨y, hy, hb, _⟩ := mem_mark hx
        rw [hb]; exact Nat.lt_succ_of_lt (hw y hy)
      · exact Nat.lt_succ_self _
  | hash i =>
    cases hi : h.objs[i]? with
    | none => simp only [step, hi]; exact hw
    | some o =>
      simp only [step, hi]
      split
      · exact hw
      · split
        · exact hw
        · exact modify_buf_lt (fun _ => rfl) hw

/-- the partial property on well-formed heaps, for programs of any length -/
theorem run_fresh_wf (flagged : List String) (h : Heap) (ops : List Op) (hf : Fresh h)
    (hw : ∀ o ∈ h.objs, o.buf < h.bufs.length)
    (hs : SafeProgram flagged h ops = true) : Fresh (run flagged h ops) := by
  induction ops generalizing h with
  | nil => exact hf
  | cons op ops ih =>
    simp only [SafeProgram, Bool.and_eq_true] at hs
    simp only [run, List.foldl_cons]
    exact ih _ (step_fresh_wf flagged h op hf hw hs.1) (step_wf flagged h op hw) hs.2

/-! ### why the well-formedness hypothesis is needed

`step_fresh_wf` / `run_fresh_wf` without `hw` are FALSE: an object whose `buf` index equals
`h.bufs.length` reads zeros (dangling), and `copy` appends a buffer exactly there, changing its bytes
while it holds a clean memo. -/
example :
    let hc : Heap := { bufs := [[5]], objs := [⟨0, [0], false, false, none⟩, ⟨1, [0], true, false, some [0]⟩] }
    Fresh hc ∧ SafeProgram [] hc [.copy 0] = true ∧
      ¬ Fresh (step [] hc (.copy 0)).2 ∧ ¬ Fresh (run [] hc [.copy 0]) := by
  decide

/-! ### non-writing operations and hash reads -/

theorem nonwriting_bufs (flagged : List String) (h : Heap) (op : Op)
    (hop : ∀ i r c v, op ≠ .write i r c v) (j : Nat) (hj : j < h.bufs.length) :
    (step flagged h op).2.bufs[j]? = h.bufs[j]? := by
  cases op with
  | write i r c v => exact absurd rfl (hop i r c v)
  | view i sel tracked =>
    cases hi : h.objs[i]? with
    | none => simp only [step, hi]
    | some o => simp only [step, hi]; split <;> rfl
  | copy i =>
    cases hi : h.objs[i]? with
    | none => simp only [step, hi]
    | some o =>
      simp only [step, hi]
      split
      · simp only [modifyObj]; exact List.getElem?_append_left hj
      · exact List.getElem?_append_left hj
  | hash i =>
    cases hi : h.objs[i]? with
    | none => simp only [step, hi]
    | some o =>
      simp only [step, hi]
      split
      · rfl
      · split <;> rfl

theorem hash_returns_bytes (flagged : List String) (h : Heap) (i : Nat) (o : Obj) (hf : Fresh h)
    (ho : h.objs[i]? = some o) (ht : o.tracked = true) :
    (step flagged h (.hash i)).1 = some (bytesOf h o) ∧ Fresh (step flagged h (.hash i)).2 ∧
    (step flagged h (.hash i)).2.bufs = h.bufs := by
  refine ⟨?_, hash_fresh flagged h i hf, ?_⟩
  · have hm : o ∈ h.objs := List.mem_iff_getElem?.2 ⟨i, ho⟩
    have hfo := hf o hm ht
    simp only [step, ho, ht, Bool.not_true, Bool.false_eq_true, if_false]
    split
    · rename_i hc
      simp only [Bool.and_eq_true, Bool.not_eq_true', Option.isSome_iff_ne_none] at hc
      rcases hfo with hd | hn | hs
      · rw [hd] at hc; cases hc.1
      · exact absurd hn hc.2
      · exact hs
    · rfl
  · simp only [step, ho, ht, Bool.not_true, Bool.false_eq_true, if_false]
    split <;> rfl

end TV.Tracked
