import TrimeshVerif.Model.Views
/- ravel / unravel are mutually inverse on every shape; flips are involutions; reshaping keeps the C-order
   position.  Core Lean only. -/
namespace TV.Views

theorem size_cons (n : Nat) (ns : List Nat) : size (n :: ns) = n * size ns := rfl

theorem ravel_lt : ∀ (shape idx : List Nat), inRange shape idx = true → ravel shape idx < size shape
  | [], [], _ => by simp [ravel, size]
  | [], _ :: _, h => by simp [inRange] at h
  | _ :: _, [], h => by simp [inRange] at h
  | n :: ns, i :: is, h => by
    simp only [inRange, Bool.and_eq_true, decide_eq_true_eq] at h
    have ih := ravel_lt ns is h.2
    simp only [ravel, size_cons]
    calc i * size ns + ravel ns is < i * size ns + size ns := by omega
      _ = (i + 1) * size ns := by rw [Nat.add_mul, Nat.one_mul]
      _ ≤ n * size ns := Nat.mul_le_mul_right _ h.1

/-- `unravel_index(ravel_multi_index(idx))` is `idx` for every in-range multi-index -/
theorem unravel_ravel : ∀ (shape idx : List Nat), inRange shape idx = true → unravel shape (ravel shape idx) = idx
  | [], [], _ => rfl
  | [], _ :: _, h => by simp [inRange] at h
  | _ :: _, [], h => by simp [inRange] at h
  | n :: ns, i :: is, h => by
    simp only [inRange, Bool.and_eq_true, decide_eq_true_eq] at h
    have hlt := ravel_lt ns is h.2
    have ih := unravel_ravel ns is h.2
    have hpos : 0 < size ns := by omega
    simp only [ravel, unravel]
    have h1 : (i * size ns + ravel ns is) / size ns = i := by
      rw [Nat.mul_comm, Nat.mul_add_div hpos, Nat.div_eq_of_lt hlt]; rfl
    have h2 : (i * size ns + ravel ns is) % size ns = ravel ns is := by
      rw [Nat.mul_comm, Nat.mul_add_mod, Nat.mod_eq_of_lt hlt]
    rw [h1, h2, ih]

/-- `ravel_multi_index(unravel_index(k))` is `k`, and the multi-index is in range, for every `k < size` -/
theorem ravel_unravel : ∀ (shape : List Nat) (k : Nat), k < size shape →
    inRange shape (unravel shape k) = true ∧ ravel shape (unravel shape k) = k
  | [], k, h => by
    simp only [size, List.foldr_nil] at h
    have : k = 0 := by omega
    subst this; simp [unravel, inRange, ravel]
  | n :: ns, k, h => by
    rw [size_cons] at h
    have hpos : 0 < size ns := by
      rcases Nat.eq_zero_or_pos (size ns) with h0 | h0
      · rw [h0] at h; omega
      · exact h0
    have ih := ravel_unravel ns (k % size ns) (Nat.mod_lt _ hpos)
    simp only [unravel, inRange, ravel, Bool.and_eq_true, decide_eq_true_eq]
    refine ⟨⟨?_, ih.1⟩, ?_⟩
    · exact (Nat.div_lt_iff_lt_mul hpos).mpr h
    · rw [ih.2]; exact Nat.div_add_mod' k (size ns)

theorem inRange_length : ∀ (shape idx : List Nat), inRange shape idx = true → idx.length = shape.length
  | [], [], _ => rfl
  | [], _ :: _, h => by simp [inRange] at h
  | _ :: _, [], h => by simp [inRange] at h
  | _ :: ns, _ :: is, h => by
    simp only [inRange, Bool.and_eq_true] at h
    simp [inRange_length ns is h.2]

theorem inRange_getD : ∀ (shape idx : List Nat), inRange shape idx = true → ∀ d, d < shape.length →
    idx.getD d 0 < shape.getD d 0
  | [], [], _, d, hd => by simp at hd
  | [], _ :: _, h, _, _ => by simp [inRange] at h
  | _ :: _, [], h, _, _ => by simp [inRange] at h
  | n :: ns, i :: is, h, d, hd => by
    simp only [inRange, Bool.and_eq_true, decide_eq_true_eq] at h
    cases d with
    | zero => simpa using h.1
    | succ d => simpa using inRange_getD ns is h.2 d (by simpa using hd)

theorem inRange_of_getD : ∀ (shape idx : List Nat), idx.length = shape.length →
    (∀ d, d < shape.length → idx.getD d 0 < shape.getD d 0) → inRange shape idx = true
  | [], [], _, _ => rfl
  | [], _ :: _, h, _ => by simp at h
  | _ :: _, [], h, _ => by simp at h
  | n :: ns, i :: is, hl, h => by
    simp only [inRange, Bool.and_eq_true, decide_eq_true_eq]
    refine ⟨by simpa using h 0 (by simp), inRange_of_getD ns is (by simpa using hl) ?_⟩
    intro d hd
    simpa using h (d + 1) (by simpa using hd)

theorem flipIdx_length (shape axes idx : List Nat) : (flipIdx shape axes idx).length = idx.length := by
  simp [flipIdx]

theorem flipIdx_getD (shape axes idx : List Nat) (d : Nat) (hd : d < idx.length) :
    (flipIdx shape axes idx).getD d 0 =
      if axes.contains d then shape.getD d 0 - 1 - idx.getD d 0 else idx.getD d 0 := by
  unfold flipIdx
  rw [List.getD_eq_getElem?_getD, List.getElem?_map, List.getElem?_zipIdx]
  simp [List.getElem?_eq_getElem hd, List.getD_eq_getElem?_getD]

/-- a flipped in-range multi-index is in range -/
theorem flipIdx_inRange (shape axes idx : List Nat) (h : inRange shape idx = true) :
    inRange shape (flipIdx shape axes idx) = true := by
  have hl := inRange_length shape idx h
  apply inRange_of_getD _ _ (by rw [flipIdx_length, hl])
  intro d hd
  rw [flipIdx_getD _ _ _ _ (by omega)]
  have := inRange_getD shape idx h d hd
  split <;> omega

/-- flipping twice gives the multi-index back (`_from_base_indices = _to_base_indices`) -/
theorem flipIdx_involutive (shape axes idx : List Nat) (h : inRange shape idx = true) :
    flipIdx shape axes (flipIdx shape axes idx) = idx := by
  have hl := inRange_length shape idx h
  apply List.ext_getElem (by simp [flipIdx_length])
  intro d h1 h2
  have e1 : (flipIdx shape axes (flipIdx shape axes idx))[d] = (flipIdx shape axes (flipIdx shape axes idx)).getD d 0 := by
    rw [List.getD_eq_getElem?_getD, List.getElem?_eq_getElem h1]; rfl
  have e2 : idx[d] = idx.getD d 0 := by
    rw [List.getD_eq_getElem?_getD, List.getElem?_eq_getElem h2]; rfl
  rw [e1, e2, flipIdx_getD _ _ _ _ (by simpa [flipIdx_length] using h1), flipIdx_getD _ _ _ _ h2]
  have := inRange_getD shape idx h d (by omega)
  split <;> omega

end TV.Views

namespace TV.Views

/-- indices of the non-zero entries, as multi-indices in C order (`sparse_indices` of the dense array) -/
def sparseIdx (shape : List Nat) (data : List Int) : List (List Nat) :=
  ((List.range (size shape)).filter (fun k => data.getD k 0 != 0)).map (unravel shape)

theorem mem_sparseIdx (shape : List Nat) (data : List Int) (idx : List Nat) :
    idx ∈ sparseIdx shape data ↔ inRange shape idx = true ∧ entry 0 shape data idx ≠ 0 := by
  unfold sparseIdx entry
  simp only [List.mem_map, List.mem_filter, List.mem_range, bne_iff_ne, ne_eq]
  constructor
  · rintro ⟨k, ⟨hk, hne⟩, rfl⟩
    have := ravel_unravel shape k hk
    exact ⟨this.1, by rw [this.2]; exact hne⟩
  · rintro ⟨hr, hne⟩
    exact ⟨ravel shape idx, ⟨ravel_lt shape idx hr, hne⟩, unravel_ravel shape idx hr⟩

/-- **flipped view**: mapping the base array's sparse indices through the flip gives exactly the positions
    where the flipped array (entry at `idx` = base entry at the flipped index) is non-zero -/
theorem flip_sparse (shape axes : List Nat) (data : List Int) (idx : List Nat) :
    idx ∈ (sparseIdx shape data).map (flipIdx shape axes) ↔
      inRange shape idx = true ∧ entry 0 shape data (flipIdx shape axes idx) ≠ 0 := by
  constructor
  · rintro h
    obtain ⟨j, hj, rfl⟩ := List.mem_map.mp h
    have := (mem_sparseIdx shape data j).mp hj
    exact ⟨flipIdx_inRange shape axes j this.1, by rw [flipIdx_involutive shape axes j this.1]; exact this.2⟩
  · rintro ⟨hr, hne⟩
    refine List.mem_map.mpr ⟨flipIdx shape axes idx, ?_, flipIdx_involutive shape axes idx hr⟩
    exact (mem_sparseIdx shape data _).mpr ⟨flipIdx_inRange shape axes idx hr, hne⟩

/-- in one dimension the flipped array is the reversed list -/
theorem flip_1d (data : List Int) (i : Nat) (hi : i < data.length) :
    data.reverse.getD i 0 = entry 0 [data.length] data (flipIdx [data.length] [0] [i]) := by
  unfold entry flipIdx ravel
  simp only [List.zipIdx_cons, List.zipIdx_nil, List.map_cons, List.map_nil, List.contains_cons,
    List.getD_cons_zero, ravel, size, List.foldr_nil]
  simp only [BEq.rfl, Bool.true_or, if_true, Nat.zero_add, Nat.mul_one, Nat.add_zero]
  rw [List.getD_eq_getElem?_getD, List.getD_eq_getElem?_getD, List.getElem?_reverse hi]

/-- **reshaped / flattened view**: reading the reshaped array at `idx` reads the same C-order position of
    the base array -/
theorem reshape_entry {α : Type} (d : α) (oldShape newShape : List Nat) (data : List α) (idx : List Nat)
    (hs : size oldShape = size newShape) (hr : inRange newShape idx = true) :
    entry d oldShape data (reshapeIdx oldShape newShape idx) = entry d newShape data idx ∧
    inRange oldShape (reshapeIdx oldShape newShape idx) = true := by
  unfold entry reshapeIdx
  have hk : ravel newShape idx < size oldShape := by rw [hs]; exact ravel_lt newShape idx hr
  have := ravel_unravel oldShape _ hk
  exact ⟨by rw [this.2], this.1⟩

/-! ### transposed view -/

theorem takeIdx_getD (perm idx : List Nat) (d : Nat) (hd : d < perm.length) :
    (takeIdx perm idx).getD d 0 = idx.getD (perm.getD d 0) 0 := by
  unfold takeIdx
  rw [List.getD_eq_getElem?_getD, List.getElem?_map, List.getElem?_eq_getElem hd]
  simp [List.getD_eq_getElem?_getD, List.getElem?_eq_getElem hd]

theorem findIdx_of_nodup (perm : List Nat) (hn : perm.Nodup) (d : Nat) (hd : d < perm.length) :
    perm.findIdx (· == perm.getD d 0) = d := by
  have hget : perm.getD d 0 = perm[d] := by
    rw [List.getD_eq_getElem?_getD, List.getElem?_eq_getElem hd]; rfl
  rw [hget, List.findIdx_eq hd]
  refine ⟨by simp, ?_⟩
  intro j hj
  have hne : perm[j] ≠ perm[d] := by
    intro e
    have := (List.getElem_inj (h₀ := by omega) (h₁ := hd) hn).mp e
    omega
  simpa using hne

/-- the base index `np.transpose` reads (`j[perm[d]] = idx[d]`): taking it through `perm` gives `idx` back -/
theorem transposeBase_spec (perm idx : List Nat) (hn : perm.Nodup) (hr : ∀ p ∈ perm, p < perm.length)
    (hl : idx.length = perm.length) :
    takeIdx perm (transposeBase perm idx) = idx := by
  apply List.ext_getElem (by simp [takeIdx, hl])
  intro d h1 h2
  have hd : d < perm.length := by simpa [takeIdx] using h1
  have e1 : (takeIdx perm (transposeBase perm idx))[d] = (takeIdx perm (transposeBase perm idx)).getD d 0 := by
    rw [List.getD_eq_getElem?_getD, List.getElem?_eq_getElem h1]; rfl
  have e2 : idx[d] = idx.getD d 0 := by
    rw [List.getD_eq_getElem?_getD, List.getElem?_eq_getElem h2]; rfl
  rw [e1, e2, takeIdx_getD _ _ _ hd]
  unfold transposeBase
  have hp : perm.getD d 0 < perm.length := hr _ (by
    rw [List.getD_eq_getElem?_getD, List.getElem?_eq_getElem hd]; exact List.getElem_mem hd)
  rw [takeIdx_getD _ _ _ (by simpa [invPerm] using hp)]
  have hinv : (invPerm perm).getD (perm.getD d 0) 0 = d := by
    unfold invPerm
    rw [List.getD_eq_getElem?_getD, List.getElem?_map, List.getElem?_range hp]
    simp only [Option.map_some, Option.getD_some]
    exact findIdx_of_nodup perm hn d hd
  rw [hinv]

/-- when the permutation is its own inverse (`perm[perm[d]] = d`: every 2-D transpose, every swap of two
    axes) the code's `np.take(indices, perm)` is the base index `np.transpose` reads -/
theorem takeIdx_eq_transposeBase_of_involution (perm idx : List Nat) (hn : perm.Nodup)
    (hr : ∀ p ∈ perm, p < perm.length) (hinv : ∀ d, d < perm.length → perm.getD (perm.getD d 0) 0 = d) :
    takeIdx perm idx = transposeBase perm idx := by
  unfold transposeBase
  congr 1
  unfold invPerm
  apply List.ext_getElem (by simp)
  intro d h1 h2
  have hd : d < perm.length := h1
  simp only [List.getElem_map, List.getElem_range]
  -- perm[d] is the position of d
  have hpd : perm.getD d 0 < perm.length := hr _ (by
    rw [List.getD_eq_getElem?_getD, List.getElem?_eq_getElem hd]; exact List.getElem_mem hd)
  have := findIdx_of_nodup perm hn (perm.getD d 0) hpd
  rw [hinv d hd] at this
  rw [this, List.getD_eq_getElem?_getD, List.getElem?_eq_getElem hd]; rfl

end TV.Views
