import TrimeshVerif.Model.Winding
/-
`fix_winding` (C18): a traversal along *any* search forest that spans the adjacency graph produces a
consistent winding whenever one exists (orientable surface), independently of the traversal order and of the
start faces.  Core Lean only.
-/
namespace TV.Winding

theorem bxor_self (a : Bool) : bxor a a = false := by cases a <;> rfl
theorem bxor_comm (a b : Bool) : bxor a b = bxor b a := by cases a <;> cases b <;> rfl
theorem bxor_assoc (a b c : Bool) : bxor (bxor a b) c = bxor a (bxor b c) := by
  cases a <;> cases b <;> cases c <;> rfl
theorem bxor_false (a : Bool) : bxor a false = a := by cases a <;> rfl

/-- nodes connected through tree edges (in either direction) -/
inductive TConn (tree : List (Nat × Nat)) : Nat → Nat → Prop where
  | refl (a : Nat) : TConn tree a a
  | fwd {a b c : Nat} : TConn tree a b → (b, c) ∈ tree → TConn tree a c
  | bwd {a b c : Nat} : TConn tree a b → (c, b) ∈ tree → TConn tree a c

/-- after the traversal of a prefix, nodes not yet seen are unflipped and every processed tree edge is
    consistent; both facts are stable under the rest of the traversal because children are fresh -/
theorem traverse_inv (w : SameDir) : ∀ (tree : List (Nat × Nat)) (seen : List Nat) (x : Flips),
    treeOrder tree seen = true →
    (∀ i, i ∉ seen → (tree.foldl (step w) x) i = x i ∨ ∃ e ∈ tree, e.2 = i) ∧
    (∀ i ∈ seen, (tree.foldl (step w) x) i = x i) ∧
    (∀ e ∈ tree, inconsistent w (tree.foldl (step w) x) e.1 e.2 = false)
  | [], seen, x, _ => ⟨fun i _ => Or.inl rfl, fun i _ => rfl, by simp⟩
  | (f, g) :: t, seen, x, h => by
    simp only [treeOrder, Bool.and_eq_true, Bool.not_eq_true', decide_eq_true_eq] at h
    obtain ⟨⟨hg, hfg⟩, ht⟩ := h
    have hgs : g ∉ seen := by
      intro hm; have := List.contains_iff_mem.mpr hm; rw [this] at hg; exact absurd hg (by simp)
    obtain ⟨i1, i2, i3⟩ := traverse_inv w t (g :: f :: seen) (step w x (f, g)) ht
    simp only [List.foldl_cons]
    -- the step changes only g
    have hstep : ∀ i, i ≠ g → step w x (f, g) i = x i := by
      intro i hi; unfold step; split
      · simp [setFlip, hi]
      · rfl
    have hstep_ok : inconsistent w (step w x (f, g)) f g = false := by
      unfold step
      by_cases hc : inconsistent w x f g = true
      · simp only [hc, if_true]
        unfold inconsistent setFlip at *
        simp only [hfg, if_false, if_true]
        revert hc
        cases w f g <;> cases x f <;> cases x g <;> simp [bxor]
      · simp only [hc]
        simpa using hc
    refine ⟨?_, ?_, ?_⟩
    · intro i hi
      by_cases hig : i = g
      · exact Or.inr ⟨(f, g), by simp, hig.symm⟩
      · by_cases hif : i = f
        · left
          rw [i2 i (by simp [hif]), hstep i hig]
        · rcases i1 i (by simp [hig, hif, hi]) with h1 | ⟨e, he, hei⟩
          · left; rw [h1, hstep i hig]
          · exact Or.inr ⟨e, List.mem_cons_of_mem _ he, hei⟩
    · intro i hi
      have hig : i ≠ g := fun e => hgs (e ▸ hi)
      rw [i2 i (by simp [hi]), hstep i hig]
    · intro e he
      rcases List.mem_cons.mp he with rfl | he
      · -- f and g keep their values for the rest of the traversal
        simp only
        have hf' := i2 f (by simp)
        have hg' := i2 g (by simp)
        unfold inconsistent at hstep_ok ⊢
        rw [hf', hg']; exact hstep_ok
      · exact i3 e he

/-- every tree edge is consistent after the traversal -/
theorem traverse_tree_consistent (w : SameDir) (tree : List (Nat × Nat)) (h : treeOrder tree [] = true) :
    ∀ e ∈ tree, inconsistent w (traverse w tree) e.1 e.2 = false :=
  (traverse_inv w tree [] (fun _ => false) h).2.2

/-- **order independence / correctness of the traversal**: if some assignment of flips `y` makes every
    adjacent pair consistent (the surface is orientable) and the tree edges connect the two faces of every
    adjacent pair, then the flips chosen by the traversal make every adjacent pair consistent too -/
theorem traverse_consistent (w : SameDir) (adj tree : List (Nat × Nat)) (h : treeOrder tree [] = true)
    (hspan : ∀ e ∈ adj, TConn tree e.1 e.2)
    (y : Flips) (hy : ∀ e ∈ adj, inconsistent w y e.1 e.2 = false)
    (hsub : ∀ e ∈ tree, e ∈ adj ∨ (e.2, e.1) ∈ adj)
    (hsym : ∀ f g, w f g = w g f) :
    ∀ e ∈ adj, inconsistent w (traverse w tree) e.1 e.2 = false := by
  have ht := traverse_tree_consistent w tree h
  -- z = x ⊕ y is constant along tree edges, hence along tree paths
  have hy' : ∀ e ∈ tree, inconsistent w y e.1 e.2 = false := by
    intro e he
    rcases hsub e he with h1 | h1
    · exact hy e h1
    · have := hy _ h1
      unfold inconsistent at this ⊢
      simp only at this
      rw [hsym e.1 e.2]
      revert this
      cases w e.2 e.1 <;> cases y e.1 <;> cases y e.2 <;> simp [bxor]
  have hz : ∀ e ∈ tree, bxor (traverse w tree e.1) (y e.1) = bxor (traverse w tree e.2) (y e.2) := by
    intro e he
    have h1 := ht e he
    have h2 := hy' e he
    unfold inconsistent at h1 h2
    revert h1 h2
    cases w e.1 e.2 <;> cases traverse w tree e.1 <;> cases traverse w tree e.2 <;> cases y e.1 <;>
      cases y e.2 <;> simp [bxor]
  have hconn : ∀ a b, TConn tree a b → bxor (traverse w tree a) (y a) = bxor (traverse w tree b) (y b) := by
    intro a b hab
    induction hab with
    | refl => rfl
    | fwd _ hm ih => rw [ih]; exact hz _ hm
    | bwd _ hm ih => rw [ih]; exact (hz _ hm).symm
  intro e he
  have h1 := hconn _ _ (hspan e he)
  have h2 := hy e he
  unfold inconsistent at h2 ⊢
  revert h1 h2
  cases w e.1 e.2 <;> cases traverse w tree e.1 <;> cases traverse w tree e.2 <;> cases y e.1 <;>
    cases y e.2 <;> simp [bxor]

/-- two traversals (different start faces, different orders, different trees) of the same orientable
    surface differ by reversing whole connected components -/
theorem traversals_differ_by_components (w : SameDir) (adj : List (Nat × Nat))
    (x1 x2 : Flips)
    (h1 : ∀ e ∈ adj, inconsistent w x1 e.1 e.2 = false) (h2 : ∀ e ∈ adj, inconsistent w x2 e.1 e.2 = false) :
    ∀ e ∈ adj, bxor (x1 e.1) (x2 e.1) = bxor (x1 e.2) (x2 e.2) := by
  intro e he
  have a := h1 e he; have b := h2 e he
  unfold inconsistent at a b
  revert a b
  cases w e.1 e.2 <;> cases x1 e.1 <;> cases x1 e.2 <;> cases x2 e.1 <;> cases x2 e.2 <;> simp [bxor]

/-! ### the executable traversal computes the same flips -/

theorem stepL_look (w : SameDir) (xl : List Bool) (xf : Flips) (e : Nat × Nat) (hx : ∀ i, look xl i = xf i)
    (hlen : e.2 < xl.length) :
    (∀ i, look (stepL w xl e) i = step w xf e i) ∧ (stepL w xl e).length = xl.length := by
  have hfun : look xl = xf := funext hx
  unfold stepL step
  rw [hfun]
  split
  · refine ⟨?_, by simp⟩
    intro i
    unfold look setFlip
    by_cases hi : i = e.2
    · subst hi
      have := hx e.2
      unfold look at this
      rw [List.getD_eq_getElem?_getD, List.getElem?_eq_getElem hlen] at this
      simp only [Option.getD_some] at this
      simp [List.getD_eq_getElem?_getD, hlen, this]
    · have := hx i
      unfold look at this
      simp only [hi, if_false]
      rw [← this]
      simp [List.getD_eq_getElem?_getD, Ne.symm hi]
  · exact ⟨hx, rfl⟩

theorem foldl_stepL_look (w : SameDir) : ∀ (tree : List (Nat × Nat)) (xl : List Bool) (xf : Flips),
    (∀ i, look xl i = xf i) → (∀ e ∈ tree, e.2 < xl.length) →
    ∀ i, look (tree.foldl (stepL w) xl) i = (tree.foldl (step w) xf) i
  | [], _, _, hx, _ => hx
  | e :: t, xl, xf, hx, hn => by
    have h := stepL_look w xl xf e hx (hn e (by simp))
    simp only [List.foldl_cons]
    exact foldl_stepL_look w t _ _ h.1 (fun e' he' => by rw [h.2]; exact hn e' (List.mem_cons_of_mem _ he'))

/-- the list-valued traversal run by the driver is the traversal of the theorems -/
theorem traverseL_eq (w : SameDir) (n : Nat) (tree : List (Nat × Nat)) (hn : ∀ e ∈ tree, e.2 < n) :
    ∀ i, look (traverseL w n tree) i = traverse w tree i := by
  unfold traverseL traverse
  apply foldl_stepL_look
  · intro i; unfold look
    rw [List.getD_eq_getElem?_getD]
    by_cases hi : i < n
    · simp [hi]
    · simp [hi]
  · intro e he; simpa using hn e he

end TV.Winding
