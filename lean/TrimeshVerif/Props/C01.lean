/-
C01 — Derived mesh values never go stale (the cache is history independent).
Property theorems only; helper lemmas live in Proofs/Cache.lean.
`f k d` (the value of cached property `k` on data `d`) is a parameter, so the theorems hold for every
cached function, every data type and every history of reads, edits and cache-keeping mutators.
-/
import TrimeshVerif.Proofs.Cache
import TrimeshVerif.Generated.C01Table
namespace TV.C01
open TV.Cache

variable {D V : Type} [DecidableEq D]

/-- the unrestricted statement (any mutators): FALSE — see the witnesses; kept visible on purpose -/
def C01_full (D V : Type) [DecidableEq D] : Prop :=
  ∀ (f : String → D → V) (d : D) (ops : List (Op D V)) (k : String),
    (read f (run f (St.init d) ops) k).1 = f k (run f (St.init d) ops).data

/-- coherence is an invariant of every operation whose mutators are sound -/
theorem C01_step_coherent (f : String → D → V) (s : St D V) (op : Op D V) (h : Coherent f s)
    (hs : match op with
      | .mutate m => MutSound f m
      | _ => True) : Coherent f (step f s op).2 := by
  exact coherent_step op h hs

/-- **every read is fresh**: after *any* history of reads, in-place or reassignment edits and sound
    cache-keeping mutators, reading any key returns the value a freshly built mesh with the same data
    reports — whatever was read before, in whatever order -/
theorem C01_read_fresh (f : String → D → V) (d : D) (ops : List (Op D V)) (hs : OpsSound f ops) (k : String) :
    (read f (run f (St.init d) ops) k).1 = f k (run f (St.init d) ops).data := by
  exact read_fresh f d ops hs k

/-- history independence: two histories that end with the same data answer every read identically -/
theorem C01_history_independent (f : String → D → V) (d d' : D) (ops ops' : List (Op D V))
    (hs : OpsSound f ops) (hs' : OpsSound f ops')
    (he : (run f (St.init d) ops).data = (run f (St.init d') ops').data) (k : String) :
    (read f (run f (St.init d) ops) k).1 = (read f (run f (St.init d') ops') k).1 := by
  rw [C01_read_fresh f d ops hs k, C01_read_fresh f d' ops' hs' k, he]

/-- (G) the cache-keeping mutators of the current source meet their syntactic obligations: they verify
    the cache before keeping anything, do not keep topology across a winding flip, and every key they keep
    is independent of what they modify (by the read sets extracted from the source) or has a registered
    transport lemma -/
theorem C01_table_sound : TV.Generated.C01.mutators.all (rowOk TV.Generated.C01.deps) = true := by decide

/-- (G) the mutators the table is about are still the ones that keep cache entries -/
theorem C01_table_mutators :
    (TV.Generated.C01.mutators.map (·.1)).all
      (fun n => ["apply_transform", "invert", "process", "unmerge_vertices"].contains n) = true := by decide

/-! ### witnesses: what goes wrong without the obligations (these were real defects, now repaired) -/

/-- a mutator that keeps a value without verifying first: edit, keep, read → stale -/
theorem C01_stale_without_verify :
    let f : String → Nat → Nat := fun _ d => d
    let m : Mutator Nat Nat := ⟨false, fun d => d, ["k"], fun _ _ v => v, true⟩
    let ops : List (Op Nat Nat) := [.read "k", .edit (fun _ => 7), .mutate m]
    (read f (run f (St.init 1) ops) "k").1 = 1 ∧ (run f (St.init 1) ops).data = 7 := by
  decide

/-- a mutator that keeps a key depending on what it modifies, with no transport: stale -/
theorem C01_stale_dependent_key :
    let f : String → Nat → Nat := fun _ d => d
    let m : Mutator Nat Nat := ⟨true, fun d => d + 1, ["k"], fun _ _ v => v, true⟩
    let ops : List (Op Nat Nat) := [.read "k", .mutate m]
    (read f (run f (St.init 1) ops) "k").1 = 1 ∧ (run f (St.init 1) ops).data = 2 := by
  decide

/-- hence the unrestricted statement is false -/
theorem C01_full_is_false : ¬ C01_full Nat Nat := by
  intro h
  have h1 := h (fun _ d => d) 1
    [.read "k", .mutate ⟨true, fun d => d + 1, ["k"], fun _ _ v => v, true⟩] "k"
  have h2 := C01_stale_dependent_key
  simp only at h2
  rw [h2.1, h2.2] at h1
  exact absurd h1 (by decide)

/-! ### what was read before never changes the data a mutator leaves behind -/

/-- **reads never change the data**: for mutators whose change is a function of the data (the model of every library
    mutator but the one below), the vertices and faces after any history are those of the same history with every
    read removed - whichever values were read, in whatever order, in between -/
theorem C01_reads_never_change_data (f : String → D → V) (d : D) (ops : List (Op D V)) :
    (run f (St.init d) ops).data
      = (run f (St.init d) (ops.filter (fun o => match o with | .read _ => false | _ => true))).data := by
  rw [run_data, run_data]
  generalize (St.init d : St D V).data = d0
  induction ops generalizing d0 with
  | nil => rfl
  | cons op t ih =>
    cases op with
    | read k => simpa [dataRun, List.filter] using ih d0
    | edit g => simpa [dataRun, List.filter] using ih (g d0)
    | mutate m => simpa [dataRun, List.filter] using ih (m.apply d0)

/-- **a mutator that consults the cache is outside that model** (the recorded finding: `merge_vertices` keeps vertices
    with different cached vertex normals apart): if the change depends on whether a key is stored, the same history
    with and without an earlier read ends with different data -/
theorem C01_cache_consulting_mutator_witness :
    let f : String → Nat → Nat := fun _ d => d
    let merge : St Nat Nat → St Nat Nat := fun s =>
      let s := verify s
      -- "merge": 36 soup vertices go to 8, or to 24 when vertex normals are in the cache
      { s with data := if (s.cache.lookup "vertex_normals").isSome then 24 else 8 }
    (merge (read f (St.init 36) "vertex_normals").2).data = 24 ∧ (merge (St.init 36)).data = 8 := by
  decide

/-! non-vacuity: a sound mutator with a genuine transport (value doubles when data doubles) -/
example : let f : String → Nat → Nat := fun _ d => 3 * d
    let m : Mutator Nat Nat := ⟨true, fun d => 2 * d, ["k"], fun _ _ v => 2 * v, true⟩
    MutSound f m := by
  refine Or.inr ⟨rfl, ?_⟩
  intro d k _
  show 2 * (3 * d) = 3 * (2 * d)
  omega

end TV.C01
