/-
C02 — The content hash of tracked arrays always reflects their current bytes.
Property theorems only; helper lemmas live in Proofs/Tracked.lean.
The hash function is modelled as injective (hash = the list of current elements).
-/
import TrimeshVerif.Proofs.Tracked
import TrimeshVerif.Generated.C02Flagged
namespace TV.C02
open TV.Tracked

/-- the full statement of the property for the model: after *any* program every tracked object is fresh
    (its next hash equals the hash of its current bytes).  It is FALSE for the code as it is — see the
    witnesses below — and is kept here so that the partial theorem is never mistaken for it. -/
def C02_full (flagged : List String) : Prop :=
  ∀ (h : Heap) (ops : List Op), Fresh h → Fresh (run flagged h ops)

/-- every array object lives on an existing buffer (true of the initial heap and kept by every step) -/
def WFHeap (h : Heap) : Prop := ∀ o ∈ h.objs, o.buf < h.bufs.length

/-- one step keeps every object fresh, provided a write is safe (flagged method of the written tracked
    object, no other tracked observer of the written cells holds a clean memo) -/
theorem C02_step_fresh (flagged : List String) (h : Heap) (op : Op) (hf : Fresh h) (hw : WFHeap h)
    (hs : (match op with
      | .write i route cells _ => SafeWrite flagged h i route cells
      | _ => true) = true) : Fresh (step flagged h op).2 ∧ WFHeap (step flagged h op).2 :=
  ⟨step_fresh_wf flagged h op hf hw hs, step_wf flagged h op hw⟩

/-- **partial form of the property (all programs of any length)**: if every write of the program is
    tracked for every observer at the point where it happens, then after the program every tracked
    object's hash is the hash of its current bytes -/
theorem C02_hash_correct_partial (flagged : List String) (h : Heap) (ops : List Op) (hf : Fresh h)
    (hw : WFHeap h) (hs : SafeProgram flagged h ops = true) : Fresh (run flagged h ops) :=
  run_fresh_wf flagged h ops hf hw hs

/-- what `Fresh` buys: a hash read returns the current bytes of the object (so equal bytes give equal
    hashes and unchanged bytes an unchanged hash), and leaves the heap fresh -/
theorem C02_hash_returns_bytes (flagged : List String) (h : Heap) (i : Nat) (o : Obj) (hf : Fresh h)
    (ho : h.objs[i]? = some o) (ht : o.tracked = true) :
    (step flagged h (.hash i)).1 = some (bytesOf h o) ∧ Fresh (step flagged h (.hash i)).2 ∧
    (step flagged h (.hash i)).2.bufs = h.bufs :=
  hash_returns_bytes flagged h i o hf ho ht

/-- operations that do not write leave every buffer unchanged (hence every hash of unchanged bytes) -/
theorem C02_nonwriting_keeps_bytes (flagged : List String) (h : Heap) (op : Op)
    (hop : ∀ i r c v, op ≠ .write i r c v) (j : Nat) (hj : j < h.bufs.length) :
    (step flagged h op).2.bufs[j]? = h.bufs[j]? :=
  nonwriting_bufs flagged h op hop j hj

/-- (G) every in-place method / operator of ndarray is overridden to set the flag in the current source -/
theorem C02_flagged_complete :
    inPlaceMethods.all (fun m => TV.Generated.c02Flagged.contains m) = true := by decide

/-- (G) `__array_finalize__` marks source and result, and `__hash__` only trusts a clean memo -/
theorem C02_finalize_and_hash_shape :
    TV.Generated.c02FinalizeDirtiesBoth = true ∧ TV.Generated.c02HashUsesMemoOnlyWhenClean = true := by decide

/-! ### witnesses: the full statement fails for the code as it is (each replayed on the implementation) -/

def h0 : Heap := { bufs := [[1, 2, 3, 4]], objs := [⟨0, [0, 1, 2, 3], true, true, none⟩] }

/-- hold a view, hash the parent, write through the view: the parent's hash is stale -/
theorem C02_stale_held_view :
    let ops : List Op := [.view 0 [0, 1] true, .hash 0, .write 1 (.method "__setitem__") [0] [99], .hash 0]
    ¬ Fresh (run TV.Generated.c02Flagged h0 ops) := by
  decide

/-- a numpy function writing into the array without calling an override (`np.copyto`, ufunc `out=`,
    `ufunc.at`, `.flat[...] =`, `clip(out=)`): stale -/
theorem C02_stale_function_route :
    let ops : List Op := [.hash 0, .write 0 (.func "copyto") [0] [99]]
    ¬ Fresh (run TV.Generated.c02Flagged h0 ops) := by
  decide

/-- hence the full statement is false for the flagged list of the current source -/
theorem C02_full_is_false : ¬ C02_full TV.Generated.c02Flagged := by
  intro hfull
  exact C02_stale_function_route (hfull h0 _ (by decide))

/-! non-vacuity of the partial theorem: a safe program with views, copies and writes -/
example : SafeProgram TV.Generated.c02Flagged h0
    [.hash 0, .write 0 (.method "__setitem__") [1] [7], .view 0 [0, 1] true,
     .write 0 (.method "fill") [0, 1, 2, 3] [5, 5, 5, 5], .hash 0, .hash 1, .copy 0, .hash 2] = true := by decide

end TV.C02
