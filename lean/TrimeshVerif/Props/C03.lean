/-
C03 — Mass properties equal the exact integrals over the enclosed solid.
Property theorems only.  `F0 … F9` are the per-face polynomials traced from the real
`triangles.mass_properties` on every run (Generated/C03Trace.lean); `T0 … T9` are the exact moments of the
signed tetrahedron spanned by the origin and the face (Proofs/Moments.lean).  All theorems hold over any
field of characteristic zero, in particular for all real coordinates.
-/
import TrimeshVerif.Proofs.Moments
import TrimeshVerif.Generated.C03Trace
import TrimeshVerif.Generated.C03TraceRat
import TrimeshVerif.Proofs.FrameLaw
import TrimeshVerif.Generated.C03FrameRat
import Mathlib.Algebra.Order.Field.Rat
namespace TV.C03
open TV.Moments TV.Generated.C03

variable {K : Type} [Field K] [CharZero K]

/-! ### (G) per-face decomposition: traced integrand = exact tetrahedron moment + cancelling edge terms -/

theorem C03_face_decomp_0 (a1 a2 a3 b1 b2 b3 c1 c2 c3 : K) :
    F0 a1 a2 a3 b1 b2 b3 c1 c2 c3 = T0 a1 a2 a3 b1 b2 b3 c1 c2 c3
      + (g0 a1 a2 a3 b1 b2 b3 + g0 b1 b2 b3 c1 c2 c3 + g0 c1 c2 c3 a1 a2 a3) := by
  unfold F0 T0 g0 det3; ring

theorem C03_face_decomp_1 (a1 a2 a3 b1 b2 b3 c1 c2 c3 : K) :
    F1 a1 a2 a3 b1 b2 b3 c1 c2 c3 = T1 a1 a2 a3 b1 b2 b3 c1 c2 c3
      + (g1 a1 a2 a3 b1 b2 b3 + g1 b1 b2 b3 c1 c2 c3 + g1 c1 c2 c3 a1 a2 a3) := by
  unfold F1 T1 g1 det3; ring

theorem C03_face_decomp_2 (a1 a2 a3 b1 b2 b3 c1 c2 c3 : K) :
    F2 a1 a2 a3 b1 b2 b3 c1 c2 c3 = T2 a1 a2 a3 b1 b2 b3 c1 c2 c3
      + (g2 a1 a2 a3 b1 b2 b3 + g2 b1 b2 b3 c1 c2 c3 + g2 c1 c2 c3 a1 a2 a3) := by
  unfold F2 T2 g2 det3; ring

theorem C03_face_decomp_3 (a1 a2 a3 b1 b2 b3 c1 c2 c3 : K) :
    F3 a1 a2 a3 b1 b2 b3 c1 c2 c3 = T3 a1 a2 a3 b1 b2 b3 c1 c2 c3
      + (g3 a1 a2 a3 b1 b2 b3 + g3 b1 b2 b3 c1 c2 c3 + g3 c1 c2 c3 a1 a2 a3) := by
  unfold F3 T3 g3 det3; ring

theorem C03_face_decomp_4 (a1 a2 a3 b1 b2 b3 c1 c2 c3 : K) :
    F4 a1 a2 a3 b1 b2 b3 c1 c2 c3 = T4 a1 a2 a3 b1 b2 b3 c1 c2 c3
      + (g4 a1 a2 a3 b1 b2 b3 + g4 b1 b2 b3 c1 c2 c3 + g4 c1 c2 c3 a1 a2 a3) := by
  unfold F4 T4 g4 det3 q2; ring

theorem C03_face_decomp_5 (a1 a2 a3 b1 b2 b3 c1 c2 c3 : K) :
    F5 a1 a2 a3 b1 b2 b3 c1 c2 c3 = T5 a1 a2 a3 b1 b2 b3 c1 c2 c3
      + (g5 a1 a2 a3 b1 b2 b3 + g5 b1 b2 b3 c1 c2 c3 + g5 c1 c2 c3 a1 a2 a3) := by
  unfold F5 T5 g5 det3 q2; ring

theorem C03_face_decomp_6 (a1 a2 a3 b1 b2 b3 c1 c2 c3 : K) :
    F6 a1 a2 a3 b1 b2 b3 c1 c2 c3 = T6 a1 a2 a3 b1 b2 b3 c1 c2 c3
      + (g6 a1 a2 a3 b1 b2 b3 + g6 b1 b2 b3 c1 c2 c3 + g6 c1 c2 c3 a1 a2 a3) := by
  unfold F6 T6 g6 det3 q2; ring

theorem C03_face_decomp_7 (a1 a2 a3 b1 b2 b3 c1 c2 c3 : K) :
    F7 a1 a2 a3 b1 b2 b3 c1 c2 c3 = T7 a1 a2 a3 b1 b2 b3 c1 c2 c3
      + (g7 a1 a2 a3 b1 b2 b3 + g7 b1 b2 b3 c1 c2 c3 + g7 c1 c2 c3 a1 a2 a3) := by
  unfold F7 T7 g7 det3 q2; ring

theorem C03_face_decomp_8 (a1 a2 a3 b1 b2 b3 c1 c2 c3 : K) :
    F8 a1 a2 a3 b1 b2 b3 c1 c2 c3 = T8 a1 a2 a3 b1 b2 b3 c1 c2 c3
      + (g8 a1 a2 a3 b1 b2 b3 + g8 b1 b2 b3 c1 c2 c3 + g8 c1 c2 c3 a1 a2 a3) := by
  unfold F8 T8 g8 det3 q2; ring

theorem C03_face_decomp_9 (a1 a2 a3 b1 b2 b3 c1 c2 c3 : K) :
    F9 a1 a2 a3 b1 b2 b3 c1 c2 c3 = T9 a1 a2 a3 b1 b2 b3 c1 c2 c3
      + (g9 a1 a2 a3 b1 b2 b3 + g9 b1 b2 b3 c1 c2 c3 + g9 c1 c2 c3 a1 a2 a3) := by
  unfold F9 T9 g9 det3 q2; ring

/-! ### the edge terms are antisymmetric -/

theorem C03_edge_antisymm_0 (u1 u2 u3 v1 v2 v3 : K) :
    g0 u1 u2 u3 v1 v2 v3 + g0 v1 v2 v3 u1 u2 u3 = 0 := by
  unfold g0; ring

theorem C03_edge_antisymm_1 (u1 u2 u3 v1 v2 v3 : K) :
    g1 u1 u2 u3 v1 v2 v3 + g1 v1 v2 v3 u1 u2 u3 = 0 := by
  unfold g1; ring

theorem C03_edge_antisymm_2 (u1 u2 u3 v1 v2 v3 : K) :
    g2 u1 u2 u3 v1 v2 v3 + g2 v1 v2 v3 u1 u2 u3 = 0 := by
  unfold g2; ring

theorem C03_edge_antisymm_3 (u1 u2 u3 v1 v2 v3 : K) :
    g3 u1 u2 u3 v1 v2 v3 + g3 v1 v2 v3 u1 u2 u3 = 0 := by
  unfold g3; ring

theorem C03_edge_antisymm_4 (u1 u2 u3 v1 v2 v3 : K) :
    g4 u1 u2 u3 v1 v2 v3 + g4 v1 v2 v3 u1 u2 u3 = 0 := by
  unfold g4; ring

theorem C03_edge_antisymm_5 (u1 u2 u3 v1 v2 v3 : K) :
    g5 u1 u2 u3 v1 v2 v3 + g5 v1 v2 v3 u1 u2 u3 = 0 := by
  unfold g5; ring

theorem C03_edge_antisymm_6 (u1 u2 u3 v1 v2 v3 : K) :
    g6 u1 u2 u3 v1 v2 v3 + g6 v1 v2 v3 u1 u2 u3 = 0 := by
  unfold g6; ring

theorem C03_edge_antisymm_7 (u1 u2 u3 v1 v2 v3 : K) :
    g7 u1 u2 u3 v1 v2 v3 + g7 v1 v2 v3 u1 u2 u3 = 0 := by
  unfold g7; ring

theorem C03_edge_antisymm_8 (u1 u2 u3 v1 v2 v3 : K) :
    g8 u1 u2 u3 v1 v2 v3 + g8 v1 v2 v3 u1 u2 u3 = 0 := by
  unfold g8; ring

theorem C03_edge_antisymm_9 (u1 u2 u3 v1 v2 v3 : K) :
    g9 u1 u2 u3 v1 v2 v3 + g9 v1 v2 v3 u1 u2 u3 = 0 := by
  unfold g9; ring

/-! ### closed surfaces: the sums computed by the code are the exact integrals -/

/-- the ten face sums the code forms (`integrated`) and the ten exact moments of the solid -/
def codeSum0 (fs : List (Tri K)) : K := (fs.map (fun f => F0 f.1.1 f.1.2.1 f.1.2.2 f.2.1.1 f.2.1.2.1 f.2.1.2.2 f.2.2.1 f.2.2.2.1 f.2.2.2.2)).sum
def exactSum0 (fs : List (Tri K)) : K := (fs.map (fun f => T0 f.1.1 f.1.2.1 f.1.2.2 f.2.1.1 f.2.1.2.1 f.2.1.2.2 f.2.2.1 f.2.2.2.1 f.2.2.2.2)).sum
def codeSum1 (fs : List (Tri K)) : K := (fs.map (fun f => F1 f.1.1 f.1.2.1 f.1.2.2 f.2.1.1 f.2.1.2.1 f.2.1.2.2 f.2.2.1 f.2.2.2.1 f.2.2.2.2)).sum
def exactSum1 (fs : List (Tri K)) : K := (fs.map (fun f => T1 f.1.1 f.1.2.1 f.1.2.2 f.2.1.1 f.2.1.2.1 f.2.1.2.2 f.2.2.1 f.2.2.2.1 f.2.2.2.2)).sum
def codeSum2 (fs : List (Tri K)) : K := (fs.map (fun f => F2 f.1.1 f.1.2.1 f.1.2.2 f.2.1.1 f.2.1.2.1 f.2.1.2.2 f.2.2.1 f.2.2.2.1 f.2.2.2.2)).sum
def exactSum2 (fs : List (Tri K)) : K := (fs.map (fun f => T2 f.1.1 f.1.2.1 f.1.2.2 f.2.1.1 f.2.1.2.1 f.2.1.2.2 f.2.2.1 f.2.2.2.1 f.2.2.2.2)).sum
def codeSum3 (fs : List (Tri K)) : K := (fs.map (fun f => F3 f.1.1 f.1.2.1 f.1.2.2 f.2.1.1 f.2.1.2.1 f.2.1.2.2 f.2.2.1 f.2.2.2.1 f.2.2.2.2)).sum
def exactSum3 (fs : List (Tri K)) : K := (fs.map (fun f => T3 f.1.1 f.1.2.1 f.1.2.2 f.2.1.1 f.2.1.2.1 f.2.1.2.2 f.2.2.1 f.2.2.2.1 f.2.2.2.2)).sum
def codeSum4 (fs : List (Tri K)) : K := (fs.map (fun f => F4 f.1.1 f.1.2.1 f.1.2.2 f.2.1.1 f.2.1.2.1 f.2.1.2.2 f.2.2.1 f.2.2.2.1 f.2.2.2.2)).sum
def exactSum4 (fs : List (Tri K)) : K := (fs.map (fun f => T4 f.1.1 f.1.2.1 f.1.2.2 f.2.1.1 f.2.1.2.1 f.2.1.2.2 f.2.2.1 f.2.2.2.1 f.2.2.2.2)).sum
def codeSum5 (fs : List (Tri K)) : K := (fs.map (fun f => F5 f.1.1 f.1.2.1 f.1.2.2 f.2.1.1 f.2.1.2.1 f.2.1.2.2 f.2.2.1 f.2.2.2.1 f.2.2.2.2)).sum
def exactSum5 (fs : List (Tri K)) : K := (fs.map (fun f => T5 f.1.1 f.1.2.1 f.1.2.2 f.2.1.1 f.2.1.2.1 f.2.1.2.2 f.2.2.1 f.2.2.2.1 f.2.2.2.2)).sum
def codeSum6 (fs : List (Tri K)) : K := (fs.map (fun f => F6 f.1.1 f.1.2.1 f.1.2.2 f.2.1.1 f.2.1.2.1 f.2.1.2.2 f.2.2.1 f.2.2.2.1 f.2.2.2.2)).sum
def exactSum6 (fs : List (Tri K)) : K := (fs.map (fun f => T6 f.1.1 f.1.2.1 f.1.2.2 f.2.1.1 f.2.1.2.1 f.2.1.2.2 f.2.2.1 f.2.2.2.1 f.2.2.2.2)).sum
def codeSum7 (fs : List (Tri K)) : K := (fs.map (fun f => F7 f.1.1 f.1.2.1 f.1.2.2 f.2.1.1 f.2.1.2.1 f.2.1.2.2 f.2.2.1 f.2.2.2.1 f.2.2.2.2)).sum
def exactSum7 (fs : List (Tri K)) : K := (fs.map (fun f => T7 f.1.1 f.1.2.1 f.1.2.2 f.2.1.1 f.2.1.2.1 f.2.1.2.2 f.2.2.1 f.2.2.2.1 f.2.2.2.2)).sum
def codeSum8 (fs : List (Tri K)) : K := (fs.map (fun f => F8 f.1.1 f.1.2.1 f.1.2.2 f.2.1.1 f.2.1.2.1 f.2.1.2.2 f.2.2.1 f.2.2.2.1 f.2.2.2.2)).sum
def exactSum8 (fs : List (Tri K)) : K := (fs.map (fun f => T8 f.1.1 f.1.2.1 f.1.2.2 f.2.1.1 f.2.1.2.1 f.2.1.2.2 f.2.2.1 f.2.2.2.1 f.2.2.2.2)).sum
def codeSum9 (fs : List (Tri K)) : K := (fs.map (fun f => F9 f.1.1 f.1.2.1 f.1.2.2 f.2.1.1 f.2.1.2.1 f.2.1.2.2 f.2.2.1 f.2.2.2.1 f.2.2.2.2)).sum
def exactSum9 (fs : List (Tri K)) : K := (fs.map (fun f => T9 f.1.1 f.1.2.1 f.1.2.2 f.2.1.1 f.2.1.2.1 f.2.1.2.2 f.2.2.1 f.2.2.2.1 f.2.2.2.2)).sum

theorem C03_closed_sum_0 (fs : List (Tri K)) (h : Closed fs) : codeSum0 fs = exactSum0 fs :=
  face_sum_eq (fun a b c => F0 a.1 a.2.1 a.2.2 b.1 b.2.1 b.2.2 c.1 c.2.1 c.2.2) (fun a b c => T0 a.1 a.2.1 a.2.2 b.1 b.2.1 b.2.2 c.1 c.2.1 c.2.2)
    (fun u v => g0 u.1 u.2.1 u.2.2 v.1 v.2.1 v.2.2)
    (fun u v => C03_edge_antisymm_0 ..) (fun a b c => C03_face_decomp_0 ..) fs h

theorem C03_closed_sum_1 (fs : List (Tri K)) (h : Closed fs) : codeSum1 fs = exactSum1 fs :=
  face_sum_eq (fun a b c => F1 a.1 a.2.1 a.2.2 b.1 b.2.1 b.2.2 c.1 c.2.1 c.2.2) (fun a b c => T1 a.1 a.2.1 a.2.2 b.1 b.2.1 b.2.2 c.1 c.2.1 c.2.2)
    (fun u v => g1 u.1 u.2.1 u.2.2 v.1 v.2.1 v.2.2)
    (fun u v => C03_edge_antisymm_1 ..) (fun a b c => C03_face_decomp_1 ..) fs h

theorem C03_closed_sum_2 (fs : List (Tri K)) (h : Closed fs) : codeSum2 fs = exactSum2 fs :=
  face_sum_eq (fun a b c => F2 a.1 a.2.1 a.2.2 b.1 b.2.1 b.2.2 c.1 c.2.1 c.2.2) (fun a b c => T2 a.1 a.2.1 a.2.2 b.1 b.2.1 b.2.2 c.1 c.2.1 c.2.2)
    (fun u v => g2 u.1 u.2.1 u.2.2 v.1 v.2.1 v.2.2)
    (fun u v => C03_edge_antisymm_2 ..) (fun a b c => C03_face_decomp_2 ..) fs h

theorem C03_closed_sum_3 (fs : List (Tri K)) (h : Closed fs) : codeSum3 fs = exactSum3 fs :=
  face_sum_eq (fun a b c => F3 a.1 a.2.1 a.2.2 b.1 b.2.1 b.2.2 c.1 c.2.1 c.2.2) (fun a b c => T3 a.1 a.2.1 a.2.2 b.1 b.2.1 b.2.2 c.1 c.2.1 c.2.2)
    (fun u v => g3 u.1 u.2.1 u.2.2 v.1 v.2.1 v.2.2)
    (fun u v => C03_edge_antisymm_3 ..) (fun a b c => C03_face_decomp_3 ..) fs h

theorem C03_closed_sum_4 (fs : List (Tri K)) (h : Closed fs) : codeSum4 fs = exactSum4 fs :=
  face_sum_eq (fun a b c => F4 a.1 a.2.1 a.2.2 b.1 b.2.1 b.2.2 c.1 c.2.1 c.2.2) (fun a b c => T4 a.1 a.2.1 a.2.2 b.1 b.2.1 b.2.2 c.1 c.2.1 c.2.2)
    (fun u v => g4 u.1 u.2.1 u.2.2 v.1 v.2.1 v.2.2)
    (fun u v => C03_edge_antisymm_4 ..) (fun a b c => C03_face_decomp_4 ..) fs h

theorem C03_closed_sum_5 (fs : List (Tri K)) (h : Closed fs) : codeSum5 fs = exactSum5 fs :=
  face_sum_eq (fun a b c => F5 a.1 a.2.1 a.2.2 b.1 b.2.1 b.2.2 c.1 c.2.1 c.2.2) (fun a b c => T5 a.1 a.2.1 a.2.2 b.1 b.2.1 b.2.2 c.1 c.2.1 c.2.2)
    (fun u v => g5 u.1 u.2.1 u.2.2 v.1 v.2.1 v.2.2)
    (fun u v => C03_edge_antisymm_5 ..) (fun a b c => C03_face_decomp_5 ..) fs h

theorem C03_closed_sum_6 (fs : List (Tri K)) (h : Closed fs) : codeSum6 fs = exactSum6 fs :=
  face_sum_eq (fun a b c => F6 a.1 a.2.1 a.2.2 b.1 b.2.1 b.2.2 c.1 c.2.1 c.2.2) (fun a b c => T6 a.1 a.2.1 a.2.2 b.1 b.2.1 b.2.2 c.1 c.2.1 c.2.2)
    (fun u v => g6 u.1 u.2.1 u.2.2 v.1 v.2.1 v.2.2)
    (fun u v => C03_edge_antisymm_6 ..) (fun a b c => C03_face_decomp_6 ..) fs h

theorem C03_closed_sum_7 (fs : List (Tri K)) (h : Closed fs) : codeSum7 fs = exactSum7 fs :=
  face_sum_eq (fun a b c => F7 a.1 a.2.1 a.2.2 b.1 b.2.1 b.2.2 c.1 c.2.1 c.2.2) (fun a b c => T7 a.1 a.2.1 a.2.2 b.1 b.2.1 b.2.2 c.1 c.2.1 c.2.2)
    (fun u v => g7 u.1 u.2.1 u.2.2 v.1 v.2.1 v.2.2)
    (fun u v => C03_edge_antisymm_7 ..) (fun a b c => C03_face_decomp_7 ..) fs h

theorem C03_closed_sum_8 (fs : List (Tri K)) (h : Closed fs) : codeSum8 fs = exactSum8 fs :=
  face_sum_eq (fun a b c => F8 a.1 a.2.1 a.2.2 b.1 b.2.1 b.2.2 c.1 c.2.1 c.2.2) (fun a b c => T8 a.1 a.2.1 a.2.2 b.1 b.2.1 b.2.2 c.1 c.2.1 c.2.2)
    (fun u v => g8 u.1 u.2.1 u.2.2 v.1 v.2.1 v.2.2)
    (fun u v => C03_edge_antisymm_8 ..) (fun a b c => C03_face_decomp_8 ..) fs h

theorem C03_closed_sum_9 (fs : List (Tri K)) (h : Closed fs) : codeSum9 fs = exactSum9 fs :=
  face_sum_eq (fun a b c => F9 a.1 a.2.1 a.2.2 b.1 b.2.1 b.2.2 c.1 c.2.1 c.2.2) (fun a b c => T9 a.1 a.2.1 a.2.2 b.1 b.2.1 b.2.2 c.1 c.2.1 c.2.2)
    (fun u v => g9 u.1 u.2.1 u.2.2 v.1 v.2.1 v.2.2)
    (fun u v => C03_edge_antisymm_9 ..) (fun a b c => C03_face_decomp_9 ..) fs h

/-- **closed-surface theorem**: for every closed, consistently wound triangle list — any genus, several
    bodies, nested or overlapping shells, any number of faces — each of the ten sums computed by
    `mass_properties` equals the exact integral of 1, x, y, z, x², y², z², xy, yz, zx over the enclosed
    solid (cone decomposition from the origin) -/
theorem C03_closed_sum (fs : List (Tri K)) (h : Closed fs) :
    codeSum0 fs = exactSum0 fs ∧ codeSum1 fs = exactSum1 fs ∧ codeSum2 fs = exactSum2 fs ∧
    codeSum3 fs = exactSum3 fs ∧ codeSum4 fs = exactSum4 fs ∧ codeSum5 fs = exactSum5 fs ∧
    codeSum6 fs = exactSum6 fs ∧ codeSum7 fs = exactSum7 fs ∧ codeSum8 fs = exactSum8 fs ∧
    codeSum9 fs = exactSum9 fs :=
  ⟨C03_closed_sum_0 fs h, C03_closed_sum_1 fs h, C03_closed_sum_2 fs h, C03_closed_sum_3 fs h,
   C03_closed_sum_4 fs h, C03_closed_sum_5 fs h, C03_closed_sum_6 fs h, C03_closed_sum_7 fs h,
   C03_closed_sum_8 fs h, C03_closed_sum_9 fs h⟩

/-! ### the enclosed solid is well defined: the volume does not depend on the apex of the cones -/

def shift (t : Pt K) (p : Pt K) : Pt K := (p.1 + t.1, p.2.1 + t.2.1, p.2.2 + t.2.2)
def shiftTri (t : Pt K) (f : Tri K) : Tri K := (shift t f.1, shift t f.2.1, shift t f.2.2)

/-- translating a closed surface (equivalently: moving the apex of the cones) leaves the exact volume
    unchanged, so "the enclosed volume" does not depend on where the origin is -/
theorem C03_apex_free_volume (t : Pt K) (fs : List (Tri K)) (h : Closed fs) :
    exactSum0 (fs.map (shiftTri t)) = exactSum0 fs := by
  unfold exactSum0
  rw [List.map_map]
  let h0 : Pt K → Pt K → K := fun u v =>
    (t.1 * (u.2.1 * v.2.2 - u.2.2 * v.2.1) - t.2.1 * (u.1 * v.2.2 - u.2.2 * v.1)
      + t.2.2 * (u.1 * v.2.1 - u.2.1 * v.1)) / 6
  exact face_sum_eq
    (fun a b c => T0 (a.1 + t.1) (a.2.1 + t.2.1) (a.2.2 + t.2.2) (b.1 + t.1) (b.2.1 + t.2.1) (b.2.2 + t.2.2)
      (c.1 + t.1) (c.2.1 + t.2.1) (c.2.2 + t.2.2))
    (fun a b c => T0 a.1 a.2.1 a.2.2 b.1 b.2.1 b.2.2 c.1 c.2.1 c.2.2) h0
    (by intro u v; simp only [h0]; ring)
    (by intro a b c; simp only [T0, det3, h0]; ring) fs h

/-! ### post-processing (shape checked against the traced outputs at translate time) -/

/-- the code's inertia entries from the ten sums `S`, density `rho` and the point `k` it subtracts -/
def codeI00 (S : Fin 10 → K) (rho k2 k3 : K) : K := rho * (S 5 + S 6 - S 0 * (k2 * k2 + k3 * k3))
def codeI01 (S : Fin 10 → K) (rho k1 k2 : K) : K := -(rho * (S 7 - S 0 * k1 * k2))
/-- exact second moments about the point `k` (parallel-axis shift of the moments about the origin) -/
def exactI00 (S : Fin 10 → K) (rho k2 k3 : K) : K :=
  rho * ((S 5 - 2 * k2 * S 2 + S 0 * k2 * k2) + (S 6 - 2 * k3 * S 3 + S 0 * k3 * k3))
def exactI01 (S : Fin 10 → K) (rho k1 k2 : K) : K :=
  -(rho * (S 7 - k1 * S 2 - k2 * S 1 + S 0 * k1 * k2))

/-- **inertia at the centre of mass**: when `k` is the centroid `(S1, S2, S3) / S0` the code's
    `second moment − V·k·k` is exactly the inertia about `k` (parallel-axis theorem), for every density -/
theorem C03_inertia_at_com (S : Fin 10 → K) (rho : K) (hV : S 0 ≠ 0) :
    codeI00 S rho (S 2 / S 0) (S 3 / S 0) = exactI00 S rho (S 2 / S 0) (S 3 / S 0) ∧
    codeI01 S rho (S 1 / S 0) (S 2 / S 0) = exactI01 S rho (S 1 / S 0) (S 2 / S 0) := by
  unfold codeI00 exactI00 codeI01 exactI01
  constructor <;> field_simp <;> ring

/-- density scales mass and inertia linearly -/
theorem C03_density_linear (S : Fin 10 → K) (rho c k1 k2 k3 : K) :
    codeI00 S (c * rho) k2 k3 = c * codeI00 S rho k2 k3 ∧
    codeI01 S (c * rho) k1 k2 = c * codeI01 S rho k1 k2 := by
  unfold codeI00 codeI01; constructor <;> ring

/-- with an overridden centre of mass `k` that is not the centroid, the code's tensor differs from the
    inertia about `k` by exactly `2·ρ·(k·(first moment) − V·k²)` terms: the override is honoured for the
    centre of mass itself but the tensor is the one about the centroid only when `k` is the centroid -/
theorem C03_inertia_override_gap (S : Fin 10 → K) (rho k2 k3 : K) :
    codeI00 S rho k2 k3 - exactI00 S rho k2 k3
      = 2 * rho * (k2 * (S 2 - S 0 * k2) + k3 * (S 3 - S 0 * k3)) := by
  unfold codeI00 exactI00; ring



/-! ### frame law (`moment_inertia_frame` → `inertia.transform_inertia`, traced: Generated/C03Frame.lean) -/

section frame
open TV.Mat3 TV.FrameLaw

/-- **frame law**: for every frame with orthonormal axes `R` and origin `p`, what `moment_inertia_frame`
    computes (the traced code, fed with the code's own tensor at the centre of mass, the centre of mass
    `first moments / volume` and the mass `ρ V`) is the exact inertia tensor of the solid about `p` in the
    coordinates of the frame: `ρ (tr Q' · 1 − Q')` with `Q' = Rᵀ Q(p) R` the second moments in the frame.
    All nine entries; parallel-axis shift and change of axes together -/
theorem C03_frame_law (S : Fin 10 → K) (rho : K) (R : M3 K) (p1 p2 p3 : K) (hV : S 0 ≠ 0)
    (h1 : R.transpose * R = 1) (h2 : R * R.transpose = 1) :
    frameM R p1 p2 p3 (S 1 / S 0) (S 2 / S 0) (S 3 / S 0) (rho * S 0)
        (codeInertia S rho (S 1 / S 0) (S 2 / S 0) (S 3 / S 0))
      = exactFrame S rho R p1 p2 p3 := by
  rw [frameM_eq _ _ _ _ _ _ _ _ _ rfl rfl rfl, parallel_axis S rho p1 p2 p3 hV]
  exact rotate_inertia rho R _ h1 h2

/-- the tensor `codeInertia` used above has the entries of `C03_inertia_at_com` -/
theorem C03_codeInertia_entries (S : Fin 10 → K) (rho k1 k2 k3 : K) :
    (codeInertia S rho k1 k2 k3).m00 = codeI00 S rho k2 k3 ∧
    (codeInertia S rho k1 k2 k3).m01 = codeI01 S rho k1 k2 := ⟨rfl, rfl⟩

/-- the parallel-axis step alone (no rotation): the tensor about any point `p` in world axes -/
theorem C03_parallel_axis (S : Fin 10 → K) (rho p1 p2 p3 : K) (hV : S 0 ≠ 0) :
    frameM (1 : M3 K) p1 p2 p3 (S 1 / S 0) (S 2 / S 0) (S 3 / S 0) (rho * S 0)
        (codeInertia S rho (S 1 / S 0) (S 2 / S 0) (S 3 / S 0))
      = inertiaOf rho (secondAbout S p1 p2 p3) := by
  have h := C03_frame_law S rho (1 : M3 K) p1 p2 p3 hV (by ext <;> simp [M3.transpose, show (1 : M3 K) = M3.one from rfl,
    M3.one, show ∀ a b : M3 K, a * b = M3.mul a b from fun _ _ => rfl, M3.mul])
    (by ext <;> simp [M3.transpose, show (1 : M3 K) = M3.one from rfl, M3.one,
      show ∀ a b : M3 K, a * b = M3.mul a b from fun _ _ => rfl, M3.mul])
  rw [h]
  unfold exactFrame
  congr 1
  ext <;> simp [M3.transpose, show (1 : M3 K) = M3.one from rfl, M3.one,
    show ∀ a b : M3 K, a * b = M3.mul a b from fun _ _ => rfl, M3.mul]

/-- non-vacuity: a quarter turn about z is orthonormal -/
example : (Rz (0 : ℚ) 1).transpose * Rz 0 1 = 1 ∧ Rz (0 : ℚ) 1 * (Rz 0 1).transpose = 1 := by
  constructor
  · show M3.mul _ _ = M3.one
    ext <;> norm_num [Rz, M3.transpose, M3.one, M3.mul]
  · show M3.mul _ _ = M3.one
    ext <;> norm_num [Rz, M3.transpose, M3.one, M3.mul]

end frame

/-! ### the polynomials the compiled driver evaluates are the traced ones at `K = ℚ` -/
theorem C03_driver_uses_trace_0 (a1 a2 a3 b1 b2 b3 c1 c2 c3 : ℚ) :
    F0 a1 a2 a3 b1 b2 b3 c1 c2 c3 = TV.Generated.C03Rat.F0 a1 a2 a3 b1 b2 b3 c1 c2 c3 := by
  unfold F0 TV.Generated.C03Rat.F0; rfl
theorem C03_driver_uses_trace_1 (a1 a2 a3 b1 b2 b3 c1 c2 c3 : ℚ) :
    F1 a1 a2 a3 b1 b2 b3 c1 c2 c3 = TV.Generated.C03Rat.F1 a1 a2 a3 b1 b2 b3 c1 c2 c3 := by
  unfold F1 TV.Generated.C03Rat.F1; rfl
theorem C03_driver_uses_trace_2 (a1 a2 a3 b1 b2 b3 c1 c2 c3 : ℚ) :
    F2 a1 a2 a3 b1 b2 b3 c1 c2 c3 = TV.Generated.C03Rat.F2 a1 a2 a3 b1 b2 b3 c1 c2 c3 := by
  unfold F2 TV.Generated.C03Rat.F2; rfl
theorem C03_driver_uses_trace_3 (a1 a2 a3 b1 b2 b3 c1 c2 c3 : ℚ) :
    F3 a1 a2 a3 b1 b2 b3 c1 c2 c3 = TV.Generated.C03Rat.F3 a1 a2 a3 b1 b2 b3 c1 c2 c3 := by
  unfold F3 TV.Generated.C03Rat.F3; rfl
theorem C03_driver_uses_trace_4 (a1 a2 a3 b1 b2 b3 c1 c2 c3 : ℚ) :
    F4 a1 a2 a3 b1 b2 b3 c1 c2 c3 = TV.Generated.C03Rat.F4 a1 a2 a3 b1 b2 b3 c1 c2 c3 := by
  unfold F4 TV.Generated.C03Rat.F4; rfl
theorem C03_driver_uses_trace_5 (a1 a2 a3 b1 b2 b3 c1 c2 c3 : ℚ) :
    F5 a1 a2 a3 b1 b2 b3 c1 c2 c3 = TV.Generated.C03Rat.F5 a1 a2 a3 b1 b2 b3 c1 c2 c3 := by
  unfold F5 TV.Generated.C03Rat.F5; rfl
theorem C03_driver_uses_trace_6 (a1 a2 a3 b1 b2 b3 c1 c2 c3 : ℚ) :
    F6 a1 a2 a3 b1 b2 b3 c1 c2 c3 = TV.Generated.C03Rat.F6 a1 a2 a3 b1 b2 b3 c1 c2 c3 := by
  unfold F6 TV.Generated.C03Rat.F6; rfl
theorem C03_driver_uses_trace_7 (a1 a2 a3 b1 b2 b3 c1 c2 c3 : ℚ) :
    F7 a1 a2 a3 b1 b2 b3 c1 c2 c3 = TV.Generated.C03Rat.F7 a1 a2 a3 b1 b2 b3 c1 c2 c3 := by
  unfold F7 TV.Generated.C03Rat.F7; rfl
theorem C03_driver_uses_trace_8 (a1 a2 a3 b1 b2 b3 c1 c2 c3 : ℚ) :
    F8 a1 a2 a3 b1 b2 b3 c1 c2 c3 = TV.Generated.C03Rat.F8 a1 a2 a3 b1 b2 b3 c1 c2 c3 := by
  unfold F8 TV.Generated.C03Rat.F8; rfl
theorem C03_driver_uses_trace_9 (a1 a2 a3 b1 b2 b3 c1 c2 c3 : ℚ) :
    F9 a1 a2 a3 b1 b2 b3 c1 c2 c3 = TV.Generated.C03Rat.F9 a1 a2 a3 b1 b2 b3 c1 c2 c3 := by
  unfold F9 TV.Generated.C03Rat.F9; rfl

/-- the frame polynomials the compiled driver evaluates are the traced ones at `K = ℚ` -/
theorem C03_driver_uses_frame_trace :
    (@TV.Generated.C03Frame.frame00 ℚ _) = TV.Generated.C03FrameRat.frame00 ∧
    (@TV.Generated.C03Frame.frame01 ℚ _) = TV.Generated.C03FrameRat.frame01 ∧
    (@TV.Generated.C03Frame.frame02 ℚ _) = TV.Generated.C03FrameRat.frame02 ∧
    (@TV.Generated.C03Frame.frame10 ℚ _) = TV.Generated.C03FrameRat.frame10 ∧
    (@TV.Generated.C03Frame.frame11 ℚ _) = TV.Generated.C03FrameRat.frame11 ∧
    (@TV.Generated.C03Frame.frame12 ℚ _) = TV.Generated.C03FrameRat.frame12 ∧
    (@TV.Generated.C03Frame.frame20 ℚ _) = TV.Generated.C03FrameRat.frame20 ∧
    (@TV.Generated.C03Frame.frame21 ℚ _) = TV.Generated.C03FrameRat.frame21 ∧
    (@TV.Generated.C03Frame.frame22 ℚ _) = TV.Generated.C03FrameRat.frame22 := by
  refine ⟨?_, ?_, ?_, ?_, ?_, ?_, ?_, ?_, ?_⟩ <;> rfl

end TV.C03
