/-
C04 — Homogeneous transforms act covariantly on every geometry.
Property theorems only.  `L` is an arbitrary 3x3 matrix (rigid, similarity, mirror, anisotropic scale, shear
— anything), `t` a translation; points move to `L p + t` (`transform_points`, traced in C19).
The moment functions are the exact tetrahedron moments of C03, so with `C03_closed_sum` these are statements
about the mass properties the library reports.  Over any field of characteristic zero.
-/
import TrimeshVerif.Proofs.Affine
import TrimeshVerif.Proofs.GeomRat
import TrimeshVerif.Generated.C04PathTable
import Mathlib.Algebra.Order.Field.Basic
import Mathlib.Algebra.Order.AbsoluteValue.Basic
import Mathlib.Tactic.Linarith
namespace TV.C04
open TV.Mat3 TV.Moments TV.Affine

variable {K : Type} [Field K] [CharZero K]

/-- applying A then B equals applying B·A; translations compose accordingly -/
theorem C04_compose (A B : M3 K) (ta tb p : V3 K) :
    transformPoint B tb (transformPoint A ta p) = transformPoint (B * A) (add (B.apply ta) tb) p := by
  obtain ⟨a00, a01, a02, a10, a11, a12, a20, a21, a22⟩ := A
  obtain ⟨b00, b01, b02, b10, b11, b12, b20, b21, b22⟩ := B
  obtain ⟨x1, x2, x3⟩ := ta
  obtain ⟨y1, y2, y3⟩ := tb
  obtain ⟨p1, p2, p3⟩ := p
  have e : ∀ X Y : M3 K, X * Y = M3.mul X Y := fun _ _ => rfl
  simp only [e, transformPoint, add, M3.apply, M3.mul, Prod.mk.injEq]
  refine ⟨?_, ?_, ?_⟩ <;> ring

/-- applying M then its inverse restores every point (for any two-sided inverse pair) -/
theorem C04_inverse (L Li : M3 K) (t p : V3 K) (h : Li * L = 1) :
    transformPoint Li (smul (-1) (Li.apply t)) (transformPoint L t p) = p := by
  have e : Li * L = M3.mul Li L := rfl
  have o : (1 : M3 K) = M3.one := rfl
  rw [e, o] at h
  have h00 := congrArg M3.m00 h
  have h01 := congrArg M3.m01 h
  have h02 := congrArg M3.m02 h
  have h10 := congrArg M3.m10 h
  have h11 := congrArg M3.m11 h
  have h12 := congrArg M3.m12 h
  have h20 := congrArg M3.m20 h
  have h21 := congrArg M3.m21 h
  have h22 := congrArg M3.m22 h
  clear h e o
  obtain ⟨l00, l01, l02, l10, l11, l12, l20, l21, l22⟩ := L
  obtain ⟨i00, i01, i02, i10, i11, i12, i20, i21, i22⟩ := Li
  obtain ⟨t1, t2, t3⟩ := t
  obtain ⟨p1, p2, p3⟩ := p
  simp only [M3.mul, M3.one] at h00 h01 h02 h10 h11 h12 h20 h21 h22
  simp only [transformPoint, add, smul, M3.apply, Prod.mk.injEq]
  refine ⟨?_, ?_, ?_⟩
  · linear_combination p1 * h00 + p2 * h01 + p3 * h02
  · linear_combination p1 * h10 + p2 * h11 + p3 * h12
  · linear_combination p1 * h20 + p2 * h21 + p3 * h22

/-- **the orientation test is sample independent**: for every triangle (edge vectors `u`, `v`) the
    transported normal `L n` and the normal of the transported triangle satisfy
    `(L n) · (L u × L v) = det L · |n|²`, so `flips_winding` returns `det L < 0` whatever random
    triangles it draws (whenever they are non-degenerate) -/
theorem C04_flip_iff_det_neg (L : M3 K) (u v : V3 K) :
    dot (L.apply (cross u v)) (cross (L.apply u) (L.apply v)) = L.det * dot (cross u v) (cross u v) := by
  obtain ⟨l00, l01, l02, l10, l11, l12, l20, l21, l22⟩ := L
  obtain ⟨u1, u2, u3⟩ := u
  obtain ⟨v1, v2, v3⟩ := v
  simp only [dot, cross, M3.apply, M3.det]
  ring

/-- the true normal of a transported triangle is the cofactor matrix applied to the old one (so a normal
    transported as `L n` stays parallel to the true normal exactly when `L n ∥ cof(L) n`: similarities) -/
theorem C04_normal_transport (L : M3 K) (u v : V3 K) :
    cross (L.apply u) (L.apply v) = (cofactor L).apply (cross u v) := by
  exact cross_apply L u v

/-- for a similarity (`Lᵀ L = s² · 1`) the cofactor matrix is a multiple of `L`:
    `s² · cof(L) = det L · L`, hence `L n` is parallel to the true new normal, pointing the same way iff
    `det L > 0` (the faces are re-wound exactly then, keeping normals outward) -/
theorem C04_similarity_normals (L : M3 K) (s : K) (h : L.transpose * L = M3.smul (s ^ 2) 1) :
    M3.smul (s ^ 2) (cofactor L) = M3.smul L.det L := by
  exact smul_cofactor_of_similarity L s h

/-- without a similarity the transported normal is in general NOT parallel to the true one
    (witness: the shear x ↦ x + y on the triangle with edges e₁, e₃) -/
theorem C04_shear_normal_witness :
    let L : M3 ℚ := ⟨1, 1, 0, 0, 1, 0, 0, 0, 1⟩
    let n : V3 ℚ := cross (1, 0, 0) (0, 0, 1)
    cross (L.apply n) (cross (L.apply (1, 0, 0)) (L.apply (0, 0, 1))) ≠ (0, 0, 0) := by
  intro L n
  simp only [L, n, cross, M3.apply]
  norm_num

/-- **volume scales by the determinant** (per signed tetrahedron, hence for the solid); reversing a face
    negates its contribution, so after the winding flip the volume scales by `|det L|` -/
theorem C04_volume_det (L : M3 K) (a b c : V3 K) :
    vol (L.apply a) (L.apply b) (L.apply c) = L.det * vol a b c ∧ vol a c b = - vol a b c := by
  constructor
  · simp only [vol, T0, det3_apply]
    ring
  · obtain ⟨a1, a2, a3⟩ := a
    obtain ⟨b1, b2, b3⟩ := b
    obtain ⟨c1, c2, c3⟩ := c
    simp only [vol, T0, det3]
    ring

/-- **the centre of mass maps through L**: first moments transform as `det L · L (first moments)` -/
theorem C04_first_moment (L : M3 K) (a b c : V3 K) :
    first (L.apply a) (L.apply b) (L.apply c) = smul L.det (L.apply (first a b c)) := by
  simp only [first, T1, T2, T3, det3_apply]
  obtain ⟨l00, l01, l02, l10, l11, l12, l20, l21, l22⟩ := L
  obtain ⟨a1, a2, a3⟩ := a
  obtain ⟨b1, b2, b3⟩ := b
  obtain ⟨c1, c2, c3⟩ := c
  simp only [smul, M3.apply, Prod.mk.injEq]
  refine ⟨?_, ?_, ?_⟩ <;> ring

/-- **tensor law**: second moments transform as `det L · L S Lᵀ` (for a similarity of ratio `s` this is the
    `s⁵ · R I Rᵀ` law for the inertia tensor) -/
theorem C04_second_moment (L : M3 K) (a b c : V3 K) :
    second (L.apply a) (L.apply b) (L.apply c) = M3.smul L.det (L * second a b c * L.transpose) := by
  have e : ∀ X Y : M3 K, X * Y = M3.mul X Y := fun _ _ => rfl
  simp only [second, T4, T5, T6, T7, T8, T9, det3_apply, e]
  generalize hd : L.det = d
  generalize hD : det3 a.1 a.2.1 a.2.2 b.1 b.2.1 b.2.2 c.1 c.2.1 c.2.2 = D
  obtain ⟨l00, l01, l02, l10, l11, l12, l20, l21, l22⟩ := L
  obtain ⟨a1, a2, a3⟩ := a
  obtain ⟨b1, b2, b3⟩ := b
  obtain ⟨c1, c2, c3⟩ := c
  simp only [M3.smul, M3.mul, M3.transpose, M3.apply, q2, M3.mk.injEq]
  refine ⟨?_, ?_, ?_, ?_, ?_, ?_, ?_, ?_, ?_⟩ <;> ring

/-- translation: per face the volume changes only by antisymmetric edge terms (they cancel on a closed
    surface, C03_apex_free_volume) -/
theorem C04_translation_volume (t a b c : V3 K) :
    ∃ h : V3 K → V3 K → K, (∀ u v, h u v + h v u = 0) ∧
      vol (add a t) (add b t) (add c t) = vol a b c + (h a b + h b c + h c a) := by
  refine ⟨fun u v => dot t (cross u v) / 6, ?_, ?_⟩
  · intro u v
    obtain ⟨t1, t2, t3⟩ := t
    obtain ⟨u1, u2, u3⟩ := u
    obtain ⟨v1, v2, v3⟩ := v
    simp only [dot, cross]
    ring
  · obtain ⟨t1, t2, t3⟩ := t
    obtain ⟨a1, a2, a3⟩ := a
    obtain ⟨b1, b2, b3⟩ := b
    obtain ⟨c1, c2, c3⟩ := c
    simp only [vol, T0, det3, add, dot, cross]
    ring

/-- squared area of a transported triangle under a similarity scales by `s⁴` -/
theorem C04_area_similarity (L : M3 K) (s : K) (h : L.transpose * L = M3.smul (s ^ 2) 1) (u v : V3 K) :
    dot (cross (L.apply u) (L.apply v)) (cross (L.apply u) (L.apply v))
      = s ^ 4 * dot (cross u v) (cross u v) := by
  rw [dot_cross_self, dot_cross_self, dot_apply_similarity L s h, dot_apply_similarity L s h,
    dot_apply_similarity L s h]
  ring


/-! ### the executable rational model run by the driver (Model/GeomRat.lean) -/
section rat
open TV.GeomRat

/-- what the driver evaluates is the generic definition at ℚ (all four by `rfl`) -/
theorem C04_rat_model_is_generic (L : M3R) (t p a b c : TV.GeomRat.V) :
    transformR L t p = transformPoint (toM3 L) t p ∧ detR L = (toM3 L).det ∧
    volR a b c = vol a b c ∧ firstR a b c = first a b c :=
  ⟨transformR_eq L t p, detR_eq L, volR_eq a b c, firstR_eq a b c⟩

theorem C04_rat_compose (A B : M3R) (ta tb p : TV.GeomRat.V) :
    transformR A ta (transformR B tb p) = transformR (mulR A B) (addV (applyR A tb) ta) p :=
  rat_compose A B ta tb p

/-- for every triangle list: the signed volume of the linearly mapped triangles is `det L` times the original -/
theorem C04_rat_mesh_volume_det (L : M3R) (ts : List TV.GeomRat.Tri) :
    meshVolR (ts.map (mapTri (applyR L))) = detR L * meshVolR ts :=
  rat_mesh_volume_det L ts

theorem C04_rat_first_moment (L : M3R) (a b c : TV.GeomRat.V) :
    firstR (applyR L a) (applyR L b) (applyR L c) = smulV (detR L) (applyR L (firstR a b c)) :=
  rat_first_moment L a b c
end rat



/-! ### (G) what `Path.apply_transform` keeps in the cache -/

/-- derived values of a path that depend only on which entities join at which vertices and on which closed curve
    contains which (`C14_enclosure`): unchanged by every invertible affine map -/
def pathTopological : List String :=
  ["root", "paths", "path_valid", "dangling", "vertex_graph", "enclosure", "enclosure_shell", "enclosure_directed"]

/-- (G) **`Path.apply_transform` in the current source keeps only topological values**: every cache key it copies
    across the transform is in the list above, the only value it carries over otherwise is `discrete`, mapped through
    the matrix point by point, and it verifies the cache before reading it, assigns the vertices, clears, re-stamps
    the cache id and only then puts the kept values back (the protocol of `C01_read_fresh`) -/
theorem C04_path_transform_keeps_topology_only :
    TV.Generated.C04.pathKept.all (fun k => pathTopological.contains k) = true ∧
    TV.Generated.C04.pathTransported = ["discrete"] ∧
    TV.Generated.C04.pathEvents = ["verify", "assign_vertices", "clear", "id_set", "update"] := by decide

/-! ### the identity shortcuts (`transform_points`, `apply_transform`: a matrix within 1e-8 of the identity is skipped) -/

section shortcut
variable {F : Type} [Field F] [LinearOrder F] [IsStrictOrderedRing F]

/-- **error of the identity shortcut**: if every entry of the matrix is within `eps` of the identity and every
    translation component within `eps` of zero, leaving the points where they are (what the code does below
    `1e-8`) moves each coordinate by at most `eps · (|p₁| + |p₂| + |p₃| + 1)` away from where the matrix would
    have put it; above the threshold the matrix is applied exactly (`C04_compose` …) -/
theorem C04_identity_shortcut_bound (L : M3 F) (t p : V3 F) (eps : F)
    (h00 : |L.m00 - 1| ≤ eps) (h01 : |L.m01| ≤ eps) (h02 : |L.m02| ≤ eps)
    (h10 : |L.m10| ≤ eps) (h11 : |L.m11 - 1| ≤ eps) (h12 : |L.m12| ≤ eps)
    (h20 : |L.m20| ≤ eps) (h21 : |L.m21| ≤ eps) (h22 : |L.m22 - 1| ≤ eps)
    (ht1 : |t.1| ≤ eps) (ht2 : |t.2.1| ≤ eps) (ht3 : |t.2.2| ≤ eps) :
    |(transformPoint L t p).1 - p.1| ≤ eps * (|p.1| + |p.2.1| + |p.2.2| + 1) ∧
    |(transformPoint L t p).2.1 - p.2.1| ≤ eps * (|p.1| + |p.2.1| + |p.2.2| + 1) ∧
    |(transformPoint L t p).2.2 - p.2.2| ≤ eps * (|p.1| + |p.2.1| + |p.2.2| + 1) := by
  obtain ⟨p1, p2, p3⟩ := p
  obtain ⟨t1, t2, t3⟩ := t
  have key : ∀ a b c d x y z : F, |a| ≤ eps → |b| ≤ eps → |c| ≤ eps → |d| ≤ eps →
      |a * x + b * y + c * z + d| ≤ eps * (|x| + |y| + |z| + 1) := by
    intro a b c d x y z ha hb hc hd
    have hx := abs_nonneg x; have hy := abs_nonneg y; have hz := abs_nonneg z
    calc |a * x + b * y + c * z + d| ≤ |a * x| + |b * y| + |c * z| + |d| := by
          have e1 := abs_add_le (a * x + b * y + c * z) d
          have e2 := abs_add_le (a * x + b * y) (c * z)
          have e3 := abs_add_le (a * x) (b * y)
          linarith
      _ = |a| * |x| + |b| * |y| + |c| * |z| + |d| := by rw [abs_mul, abs_mul, abs_mul]
      _ ≤ eps * |x| + eps * |y| + eps * |z| + eps := by
          have := mul_le_mul_of_nonneg_right ha hx
          have := mul_le_mul_of_nonneg_right hb hy
          have := mul_le_mul_of_nonneg_right hc hz
          linarith
      _ = eps * (|x| + |y| + |z| + 1) := by ring
  simp only [transformPoint, add, M3.apply]
  refine ⟨?_, ?_, ?_⟩
  · have := key (L.m00 - 1) L.m01 L.m02 t1 p1 p2 p3 h00 h01 h02 ht1
    convert this using 2; ring
  · have := key L.m10 (L.m11 - 1) L.m12 t2 p1 p2 p3 h10 h11 h12 ht2
    convert this using 2; ring
  · have := key L.m20 L.m21 (L.m22 - 1) t3 p1 p2 p3 h20 h21 h22 ht3
    convert this using 2; ring

end shortcut

section primitive

/-- **`Primitive.apply_transform` with a uniform scale places every point where `M` sends it**: the primitive's sizes are
    multiplied by `s` (its shape points `q` become `s q`), the translation of its current transform `(C, c)` is
    multiplied by `s`, and the new transform is `M · scale_matrix(1/s) · (C, s c)`; for `M = (s R, t)` with `s ≠ 0` the
    new primitive has the rigid transform `(R C, s R c + t)`, and its point `s q` lands exactly on `M` applied to the old
    placement of `q` -/
theorem C04_primitive_transform (s : K) (hs : s ≠ 0) (R C : M3 K) (t c q : V3 K) :
    let updatedL : M3 K := (M3.smul s R) * ((M3.smul (1 / s) 1) * C)
    let updatedT : V3 K := add ((M3.smul s R).apply (add ((M3.smul (1 / s) (1 : M3 K)).apply (smul s c)) (0, 0, 0))) t
    updatedL = R * C ∧
    transformPoint updatedL updatedT (smul s q) = transformPoint (M3.smul s R) t (transformPoint C c q) := by
  obtain ⟨r00, r01, r02, r10, r11, r12, r20, r21, r22⟩ := R
  obtain ⟨c00, c01, c02, c10, c11, c12, c20, c21, c22⟩ := C
  obtain ⟨t1, t2, t3⟩ := t
  obtain ⟨d1, d2, d3⟩ := c
  obtain ⟨q1, q2, q3⟩ := q
  have e : ∀ X Y : M3 K, X * Y = M3.mul X Y := fun _ _ => rfl
  have o : (1 : M3 K) = M3.one := rfl
  constructor
  · simp only [e, o, M3.smul, M3.mul, M3.one]
    ext <;> simp <;> field_simp <;> ring
  · simp only [e, o, transformPoint, add, smul, M3.apply, M3.smul, M3.mul, M3.one, Prod.mk.injEq]
    refine ⟨?_, ?_, ?_⟩ <;> field_simp <;> ring

/-- dividing the translation of `M` by the scale as well (rows of `M` divided, seeded change C04-6) is wrong as soon as
    `M` translates: witness `M = (2 · 1, (2, 0, 0))`, a primitive at the origin -/
theorem C04_primitive_transform_witness :
    let s : Rat := 2
    let wrongT : V3 Rat := smul (1 / s) (2, 0, 0)      -- the translation column divided with the rows
    transformPoint (1 : M3 Rat) wrongT (smul s (1, 0, 0)) ≠ transformPoint (M3.smul s 1) (2, 0, 0) (1, 0, 0) := by
  have o : (1 : M3 Rat) = M3.one := rfl
  simp [o, transformPoint, add, smul, M3.apply, M3.smul, M3.one]

end primitive

end TV.C04
