/-
C05 — Topological queries equal their combinatorial (counting) definitions.
Property theorems only; helper lemmas live in Proofs/Topology.lean.
Every theorem is for an arbitrary face list: non-manifold edges, repeated indices inside a face,
repeated faces and unreferenced vertices included.
-/
import TrimeshVerif.Proofs.Topology
import TrimeshVerif.Proofs.AngleDefect
import TrimeshVerif.Generated.C05Table
namespace TV.C05
open TV TV.Grouping TV.Topology

/-- the three sorted edges of face number `f` -/
def faceEdges (fs : List Face) (f : Nat) : List Edge := ((edgesSorted fs).drop (3 * f)).take 3

/-- edges are, per face and in face order, (a,b), (b,c), (c,a); `edges_face` is the face number -/
theorem C05_edges (fs : List Face) :
    (edges fs).length = 3 * fs.length ∧ (edgesFace fs).length = 3 * fs.length ∧
    (∀ i (h : i < fs.length),
      (edges fs)[3 * i]? = some (fs[i].1, fs[i].2.1) ∧
      (edges fs)[3 * i + 1]? = some (fs[i].2.1, fs[i].2.2) ∧
      (edges fs)[3 * i + 2]? = some (fs[i].2.2, fs[i].1)) ∧
    (∀ k, k < 3 * fs.length → (edgesFace fs)[k]? = some (k / 3)) := by
  exact ⟨edges_length fs, edgesFace_length fs, edges_getElem? fs, edgesFace_getElem? fs⟩

/-- **face adjacency = counting definition**: `((f, g), e)` is reported iff `f < g`, the sorted
    edge `e` occurs exactly twice among all sorted edges, once in face `f` and once in face `g` -/
theorem C05_adjacency (fs : List Face) (f g : Nat) (e : Edge) :
    ((f, g), e) ∈ faceAdjacency fs ↔
      f < g ∧ (edgesSorted fs).count e = 2 ∧ e ∈ faceEdges fs f ∧ e ∈ faceEdges fs g := by
  exact mem_faceAdjacency fs f g e

/-- adjacency rows are not repeated -/
theorem C05_adjacency_nodup (fs : List Face) : (faceAdjacency fs).Nodup := by
  exact faceAdjacency_nodup fs

/-- **watertight ⇔ every sorted edge occurs exactly twice** -/
theorem C05_watertight (fs : List Face) :
    isWatertight fs = true ↔ ∀ e ∈ edgesSorted fs, (edgesSorted fs).count e = 2 := by
  exact isWatertight_iff fs

/-- **winding consistent ⇔ each edge that occurs exactly twice is traversed in opposite directions**
    (for the pair `i < j` of its occurrences: end of the first = start of the second) -/
theorem C05_winding (fs : List Face) :
    isWindingConsistent fs = true ↔
      ∀ i j, i < j → j < (edges fs).length →
        (edgesSorted fs)[i]? = (edgesSorted fs)[j]? →
        (edgesSorted fs).count ((edgesSorted fs).getD i (0, 0)) = 2 →
        ((edges fs).getD i (0, 0)).2 = ((edges fs).getD j (0, 0)).1 := by
  exact isWindingConsistent_iff fs

/-- unique edges are exactly the distinct sorted edges, each once; the inverse reconstructs -/
theorem C05_edges_unique (fs : List Face) :
    (edgesUnique fs).Nodup ∧ (∀ e, e ∈ edgesUnique fs ↔ e ∈ edgesSorted fs) ∧
    (∀ i, i < (edgesSorted fs).length →
      ∃ k, (edgesUniqueInverse fs)[i]? = some k ∧ (edgesUnique fs)[k]? = (edgesSorted fs)[i]?) := by
  exact ⟨edgesUnique_nodup fs, mem_edgesUnique fs, edgesUnique_inverse fs⟩

/-- Euler number = #referenced vertices − #distinct undirected edges + #faces -/
theorem C05_euler (fs : List Face) (nV : Nat) :
    eulerNumber fs nV =
      (((List.range nV).filter (fun v => v ∈ corners fs)).length : Int)
        - (((edgesSorted fs).eraseDups).length : Int) + (fs.length : Int) := by
  exact eulerNumber_eq fs nV

/-- degree and incident faces by direct counting (one per occurrence of the vertex) -/
theorem C05_vertex_faces (fs : List Face) (nV v : Nat) (hv : v < nV) :
    (vertexDegree fs nV)[v]? = some ((corners fs).count v) ∧
    ∃ l, (vertexFaces fs nV)[v]? = some l ∧ l.length = (corners fs).count v ∧
      ∀ f, l.count f = ([(fs.getD f (nV, nV, nV)).1, (fs.getD f (nV, nV, nV)).2.1,
                         (fs.getD f (nV, nV, nV)).2.2]).count v := by
  exact ⟨vertexDegree_getElem? fs nV v hv, vertexFaces_spec fs nV v hv⟩

/-- neighbours: `w` is a neighbour of `v` iff `{v, w}` is an (undirected) edge of some face -/
theorem C05_neighbors (fs : List Face) (nV v w : Nat) (hv : v < nV) :
    (∃ l, (vertexNeighbors fs nV)[v]? = some l ∧ l.Nodup ∧
      (w ∈ l ↔ sortEdge (v, w) ∈ edgesSorted fs)) := by
  exact vertexNeighbors_spec fs nV v w hv

/-- column `k` of a face row -/
def corner (f : Face) : Nat → Nat
  | 0 => f.1
  | 1 => f.2.1
  | _ => f.2.2

/-- `.reshape((-1, 2))` -/
def pairs : List Nat → List Edge
  | a :: b :: t => (a, b) :: pairs t
  | _ => []

/-- **(G) the edge order of the source is the model's**: the face columns `geometry.faces_to_edges` lists (read from
    the current source by `ast`), reshaped to pairs, give for every face array exactly the model's `edges` - per face
    `(a,b), (b,c), (c,a)` in face order - and the face index of every edge is still the face number tiled three
    times, the `edgesFace` of the model -/
theorem C05_edges_of_source (fs : List Face) :
    fs.flatMap (fun f => pairs (TV.Generated.C05.edgeColumns.map (corner f))) = edges fs ∧
    TV.Generated.C05.faceIndexExpr = "np.tile(np.arange(len(faces)), (3, 1)).T.reshape(-1)" :=
  ⟨rfl, by decide⟩

/-- **unshared vertex = the corner off the shared edge, by counting**: the reported vertex is a corner of the face
    that is neither end of the edge, and it is reported exactly when one corner (counted with multiplicity)
    qualifies; in particular for a face with three different corners that contains both ends of the edge it is
    the third corner, and for a degenerate face that has no or several such corners nothing (`-1`) is reported -/
theorem C05_unshared (f : Face) (e : Edge) :
    (∀ v, unsharedOf f e = some v ↔ [f.1, f.2.1, f.2.2].filter (fun x => x != e.1 && x != e.2) = [v]) ∧
    (∀ v, unsharedOf f e = some v → (v = f.1 ∨ v = f.2.1 ∨ v = f.2.2) ∧ v ≠ e.1 ∧ v ≠ e.2) ∧
    (unsharedOf f e = none ↔ ([f.1, f.2.1, f.2.2].filter (fun x => x != e.1 && x != e.2)).length ≠ 1) := by
  unfold unsharedOf
  refine ⟨?_, ?_, ?_⟩
  · intro v
    split
    · rename_i w hw; rw [hw]; simp
    · rename_i hne
      constructor
      · intro h; cases h
      · intro h; exact absurd h (hne v)
  · intro v
    split
    · rename_i w hw
      intro h
      cases h
      have hm : v ∈ [f.1, f.2.1, f.2.2].filter (fun x => x != e.1 && x != e.2) := by rw [hw]; simp
      rw [List.mem_filter] at hm
      simp only [List.mem_cons, List.not_mem_nil, or_false, Bool.and_eq_true, bne_iff_ne] at hm
      exact ⟨hm.1, hm.2.1, hm.2.2⟩
    · intro h; cases h
  · split
    · rename_i w hw; rw [hw]; simp
    · rename_i hne
      simp only [true_iff]
      intro hl
      match hq : [f.1, f.2.1, f.2.2].filter (fun x => x != e.1 && x != e.2), hl with
      | [v], _ => exact hne v hq

/-- instance: faces (a, b, c) and (b, a, d) sharing the edge {a, b}, all four vertices different: the unshared
    vertices are `c` and `d` -/
theorem C05_unshared_manifold (a b c d : Nat) (hab : a ≠ b) (hac : a ≠ c) (hbc : b ≠ c) (had : a ≠ d) (hbd : b ≠ d) :
    unsharedOf (a, b, c) (sortEdge (a, b)) = some c ∧ unsharedOf (b, a, d) (sortEdge (a, b)) = some d := by
  have h1 : ∀ x y : Nat, (sortEdge (x, y)).1 = min x y ∧ (sortEdge (x, y)).2 = max x y := by
    intro x y; simp [sortEdge]
  unfold unsharedOf
  rcases Nat.lt_or_ge a b with h | h
  · have e1 : (sortEdge (a, b)) = (a, b) := by simp [sortEdge, Nat.min_eq_left (Nat.le_of_lt h), Nat.max_eq_right (Nat.le_of_lt h)]
    rw [e1]
    simp [hab, hac, hbc, had, hbd, Ne.symm hab, Ne.symm hac, Ne.symm hbc, Ne.symm had, Ne.symm hbd]
  · have e1 : (sortEdge (a, b)) = (b, a) := by simp [sortEdge, Nat.min_eq_right h, Nat.max_eq_left h]
    rw [e1]
    simp [hab, hac, hbc, had, hbd, Ne.symm hab, Ne.symm hac, Ne.symm hbc, Ne.symm had, Ne.symm hbd]

/-- connectivity of nodes `< n` through the (undirected) edge list -/
inductive Conn (n : Nat) (es : List (Nat × Nat)) : Nat → Nat → Prop where
  | refl (a : Nat) : Conn n es a a
  | step {a b c : Nat} : Conn n es a b →
      ((b, c) ∈ es ∨ (c, b) ∈ es) → b < n → c < n → Conn n es a c

/-- **components = reflexive–transitive closure of adjacency**: two nodes share a component iff
    they are connected; every node is in exactly one component (whatever the engine) -/
theorem C05_components (n : Nat) (es : List (Nat × Nat)) (a b : Nat) (ha : a < n) (hb : b < n) :
    ((∃ g ∈ components n es 1, a ∈ g ∧ b ∈ g) ↔ Conn n es a b) ∧
    (components n es 1).flatten.count a = 1 := by
  have key : ∀ x y, Conn n es x y ↔ Reach n es x y := by
    intro x y
    constructor
    · intro h
      induction h with
      | refl => exact .refl _
      | step _ he hb hc ih => exact .step ih he hb hc
    · intro h
      induction h with
      | refl => exact .refl _
      | step _ he hb hc ih => exact .step ih he hb hc
  rw [key]
  exact components_spec n es a b ha hb


/-! ### vertex_defects: the angle-defect law -/

section defects
open TV.AngleDefect
variable {K : Type} [CommRing K]

/-- **angle-defect law (any mesh)**: give every face three corner angles that add up to `π` (whatever they
    are, `π` any element of the ring); then the defects `2π − (sum of the angles at the vertex)` of the
    referenced vertices add up to `π (2 V − F)` — non-manifold edges, repeated faces and unreferenced
    vertices included -/
theorem C05_defect_sum (pi : K) (fa : List (FA K)) (n : Nat)
    (hang : ∀ x ∈ fa, x.2.1 + x.2.2.1 + x.2.2.2 = pi)
    (hn : ∀ v ∈ corners (fa.map (·.1)), v < n) :
    ((Finset.range n).filter (fun v => v ∈ corners (fa.map (·.1)))).sum (defect pi fa)
      = pi * (2 * (((Finset.range n).filter (fun v => v ∈ corners (fa.map (·.1)))).card : K) - fa.length) :=
  defect_sum pi fa n hang hn

/-- **discrete Gauss-Bonnet**: on a closed surface (every undirected edge used exactly twice — what
    `C05_watertight` says `is_watertight` tests) the defects add up to `2π · (V − E + F)`, the Euler number
    of `C05_euler` -/
theorem C05_gauss_bonnet (pi : K) (fa : List (FA K)) (n : Nat)
    (hang : ∀ x ∈ fa, x.2.1 + x.2.2.1 + x.2.2.2 = pi)
    (hn : ∀ v ∈ corners (fa.map (·.1)), v < n)
    (hclosed : ∀ e ∈ edgesSorted (fa.map (·.1)), (edgesSorted (fa.map (·.1))).count e = 2) :
    ((Finset.range n).filter (fun v => v ∈ corners (fa.map (·.1)))).sum (defect pi fa)
      = 2 * pi * ((((Finset.range n).filter (fun v => v ∈ corners (fa.map (·.1)))).card : K)
          - ((edgesSorted (fa.map (·.1))).eraseDups.length : K) + (fa.length : K)) :=
  defect_sum_closed pi fa n hang hn hclosed

/-- non-vacuity: the tetrahedron with all angles `π/3` (here `π = 3`, angles `1`) is closed, and its four
    defects `2·3 − 3·1 = 3` add up to `12 = 2 · 3 · (4 − 6 + 4)` -/
example :
    let fa : List (FA Int) := [((0, 2, 1), (1, 1, 1)), ((0, 1, 3), (1, 1, 1)), ((1, 2, 3), (1, 1, 1)),
      ((0, 3, 2), (1, 1, 1))]
    (∀ x ∈ fa, x.2.1 + x.2.2.1 + x.2.2.2 = 3) ∧
    (∀ e ∈ edgesSorted (fa.map (·.1)), (edgesSorted (fa.map (·.1))).count e = 2) ∧
    (∀ v ∈ corners (fa.map (·.1)), v < 4) := by decide

end defects

/-! non-vacuity: the hypotheses of the theorems above are only index bounds; concrete meshes
    (tetrahedron, cube, non-manifold fans) are evaluated through the driver in the correspondence run
    (`decide` cannot evaluate `List.mergeSort`, which is defined by well-founded recursion). -/

end TV.C05
