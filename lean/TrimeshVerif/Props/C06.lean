/-
C06 — Row grouping and uniqueness primitives are exact.
Property theorems only; helper lemmas live in Proofs/.
-/
import TrimeshVerif.Proofs.Grouping
import TrimeshVerif.Proofs.GroupingMore
import TrimeshVerif.Proofs.GroupingUnique
import TrimeshVerif.Generated.C06Pack
namespace TV.C06
open TV TV.Grouping

/-- the guard of `hashable_rows` on one value, as an explicit predicate -/
def InGuard (cols : Nat) (v : Int) : Prop := v < threshold cols ∧ -(threshold cols) < v

private theorem field_bound (cols : Nat) (hc : cols = 2 ∨ cols = 3 ∨ cols = 4) (v : Int) (h : InGuard cols v) :
    ((v + (threshold cols + 1)) % 2 ^ 64).toNat = (v + (threshold cols + 1)).toNat ∧
    (v + (threshold cols + 1)).toNat < 2 ^ precision cols ∧ 0 ≤ v + (threshold cols + 1) := by
  unfold InGuard at h
  rcases hc with rfl | rfl | rfl <;> simp only [threshold, precision] at h ⊢ <;> omega

/-- **Packing is injective under the code's guard** (2, 3 or 4 columns; all integers): two rows
    inside the guard that pack to the same uint64 are equal.  No overflow, no carry between fields. -/
theorem C06_pack_injective (cols : Nat) (hc : cols = 2 ∨ cols = 3 ∨ cols = 4)
    (r r' : List Int) (hl : r.length = cols) (hl' : r'.length = cols)
    (hg : ∀ v ∈ r, InGuard cols v) (hg' : ∀ v ∈ r', InGuard cols v)
    (h : packRow cols r = packRow cols r') : r = r' := by
  unfold packRow at h
  have hp : cols * precision cols ≤ 64 := by
    rcases hc with rfl | rfl | rfl <;> simp [precision]
  have key := packFields_inj (precision cols) _ _ (by simp [hl, hl'])
    (by intro y hy
        obtain ⟨v, hv, rfl⟩ := List.mem_map.mp hy
        have := field_bound cols hc v (hg v hv); rw [this.1]; exact this.2.1)
    (by intro y hy
        obtain ⟨v, hv, rfl⟩ := List.mem_map.mp hy
        have := field_bound cols hc v (hg' v hv); rw [this.1]; exact this.2.1)
    (by simpa [hl] using hp) h
  -- the offset map is injective on guarded values
  have inj : ∀ (a b : List Int), (∀ v ∈ a, InGuard cols v) → (∀ v ∈ b, InGuard cols v) →
      a.map (fun v => ((v + (threshold cols + 1)) % 2 ^ 64).toNat)
        = b.map (fun v => ((v + (threshold cols + 1)) % 2 ^ 64).toNat) → a = b := by
    intro a
    induction a with
    | nil => intro b _ _ e; cases b with
      | nil => rfl
      | cons _ _ => simp at e
    | cons x xs ih =>
      intro b ha hb e
      cases b with
      | nil => simp at e
      | cons y ys =>
        simp only [List.map_cons, List.cons.injEq] at e
        have hx := field_bound cols hc x (ha x (by simp))
        have hy := field_bound cols hc y (hb y (by simp))
        have e1 := e.1
        rw [hx.1, hy.1] at e1
        have : x = y := by have := hx.2.2; have := hy.2.2; omega
        rw [this, ih ys (fun v hv => ha v (List.mem_cons_of_mem _ hv))
          (fun v hv => hb v (List.mem_cons_of_mem _ hv)) e.2]
  exact inj r r' hg hg' key

/-- the guard is needed: one step beyond it two different rows pack to the same integer
    (the off-by-one the range check protects against) -/
theorem C06_guard_needed : packRow 2 [2 ^ 31, 0] = packRow 2 [-(2 ^ 31), 1] ∧
    ([2 ^ 31, 0] : List Int) ≠ [-(2 ^ 31), 1] := by decide

/-- `hashable_rows` is a faithful relabelling of the rows of one array: equal rows get equal
    hashes and different rows different hashes, on the packed route and on the fallback route -/
theorem C06_hashable_faithful (cols : Nat) (rows : List (List Int)) (hl : ∀ r ∈ rows, r.length = cols) :
    ∃ f : List Int → List Int, hashableRows cols rows = rows.map f ∧
      ∀ r ∈ rows, ∀ r' ∈ rows, f r = f r' → r = r' := by
  unfold hashableRows
  by_cases h1 : cols = 1
  · exact ⟨id, by simp [h1], fun _ _ _ _ e => e⟩
  · by_cases h2 : (decide (cols ≤ 4) && guardOk cols rows) = true
    · refine ⟨fun r => [(packRow cols r : Int)], by simp [h1, h2], ?_⟩
      intro r hr r' hr' e
      simp only [Bool.and_eq_true, decide_eq_true_eq] at h2
      have hg : ∀ r ∈ rows, ∀ v ∈ r, InGuard cols v := by
        intro r hr v hv
        have := List.all_eq_true.mp h2.2 r hr
        have := List.all_eq_true.mp this v hv
        simpa [InGuard] using this
      by_cases h0 : cols = 0
      · have a := hl r hr; have b := hl r' hr'
        rw [h0] at a b
        rw [List.length_eq_zero_iff.mp a, List.length_eq_zero_iff.mp b]
      · have hc : cols = 2 ∨ cols = 3 ∨ cols = 4 := by omega
        have e' : packRow cols r = packRow cols r' := by
          have e2 : (packRow cols r : Int) = (packRow cols r' : Int) := by simpa using e
          exact Int.ofNat.inj e2
        exact C06_pack_injective cols hc r r' (hl r hr) (hl r' hr') (hg r hr) (hg r' hr') e'
    · refine ⟨id, ?_, fun _ _ _ _ e => e⟩
      simp only [h1, if_false, h2, List.map_id]
      rfl

/-- **Grouping partitions exactly** (`grouping.group` on any values with a total order, any
    `min_len` / `max_len`): the groups returned are exactly the classes of equal values whose size
    passes the filter; every index is in exactly one class; classes are duplicate-free. -/
theorem C06_group_partition {α : Type} [DecidableEq α] (le : α → α → Bool) (hle : IsOrder le)
    (vs : List α) (minLen maxLen : Option Nat) :
    -- the unfiltered groups partition the indices by equality of values
    (∀ i j, i < vs.length → j < vs.length →
        ((∃ g ∈ groupsOf le vs, i ∈ g ∧ j ∈ g) ↔ vs[i]? = vs[j]?)) ∧
    (∀ i, i < vs.length → (groupsOf le vs).flatten.count i = 1) ∧
    -- the filter keeps exactly the classes whose size passes
    (∀ g, g ∈ group le vs minLen maxLen ↔ g ∈ groupsOf le vs ∧ lenOk minLen maxLen g.length = true) := by
  have h := groupsOf_isGrouping hle vs
  refine ⟨fun i j hi hj => h.iff_same_group hi hj, fun i hi => h.count_one hi, ?_⟩
  intro g; simp [group]

/-- **group_rows**: two row indices land in the same group iff the rows are equal -/
theorem C06_group_rows (cols : Nat) (rows : List (List Int)) (hl : ∀ r ∈ rows, r.length = cols)
    (i j : Nat) (hi : i < rows.length) (hj : j < rows.length) :
    (∃ g ∈ groupsOf lexLe (hashableRows cols rows), i ∈ g ∧ j ∈ g) ↔ rows[i]? = rows[j]? := by
  obtain ⟨f, hf, finj⟩ := C06_hashable_faithful cols rows hl
  have h := groupsOf_isGrouping lexLe_isOrder (hashableRows cols rows)
  have hlen : (hashableRows cols rows).length = rows.length := by rw [hf]; simp
  rw [h.iff_same_group (by omega) (by omega), hf]
  simp only [List.getElem?_map, List.getElem?_eq_getElem hi, List.getElem?_eq_getElem hj, Option.map_some,
    Option.some.injEq]
  constructor
  · intro e; exact finj _ (List.getElem_mem hi) _ (List.getElem_mem hj) e
  · intro e; rw [e]

/-- **unique_rows / np.unique model**: the returned indices and inverse reconstruct the input,
    the selected values are pairwise different, and each selected index is the first occurrence
    of its value — in sorted order and in `keep_order` (first-occurrence) order alike -/
theorem C06_unique {α : Type} [DecidableEq α] (le : α → α → Bool) (hle : IsOrder le) (vs : List α)
    (keepOrder : Bool) :
    let r := if keepOrder then uniqueOrderedIdxInv le vs else uniqueIdxInv le vs
    (∀ i, i < vs.length → ∃ k u, r.2[i]? = some k ∧ r.1[k]? = some u ∧ vs[u]? = vs[i]?) ∧
    r.1.Pairwise (fun u u' => vs[u]? ≠ vs[u']?) ∧
    (∀ u ∈ r.1, ∀ j, j < u → vs[j]? ≠ vs[u]?) ∧
    (keepOrder = true → r.1.Pairwise (· ≤ ·)) := by
  have h := groupsOf_isGrouping hle vs
  cases keepOrder with
  | false =>
    simp only [Bool.false_eq_true, if_false]
    exact ⟨fun i hi => h.unique_reconstruct hi, h.unique_distinct, fun u hu => h.unique_first hu,
      fun e => absurd e (by simp)⟩
  | true =>
    simp only [if_true]
    have h' := h.of_perm (orderByHead_perm (groupsOf le vs)).symm
    exact ⟨fun i hi => h'.unique_reconstruct hi, h'.unique_distinct, fun u hu => h'.unique_first hu,
      fun _ => orderByHead_sorted _⟩

/-- unique_rows on rows: reconstruction at the level of rows, through the hash -/
theorem C06_unique_rows (cols : Nat) (rows : List (List Int)) (hl : ∀ r ∈ rows, r.length = cols)
    (keepOrder : Bool) (i : Nat) (hi : i < rows.length) :
    ∃ k u, (uniqueRows cols rows keepOrder).2[i]? = some k ∧
      (uniqueRows cols rows keepOrder).1[k]? = some u ∧ rows[u]? = rows[i]? := by
  obtain ⟨f, hf, finj⟩ := C06_hashable_faithful cols rows hl
  have hlen : (hashableRows cols rows).length = rows.length := by rw [hf]; simp
  have h := (C06_unique lexLe lexLe_isOrder (hashableRows cols rows) keepOrder).1 i (by omega)
  obtain ⟨k, u, h1, h2, h3⟩ := h
  refine ⟨k, u, ?_, ?_, ?_⟩
  · unfold uniqueRows; cases keepOrder <;> simpa using h1
  · unfold uniqueRows; cases keepOrder <;> simpa using h2
  · rw [hf] at h3
    simp only [List.getElem?_map, List.getElem?_eq_getElem hi, Option.map_some] at h3
    cases hu : rows[u]? with
    | none => simp [hu] at h3
    | some ru =>
      simp only [hu, Option.map_some, Option.some.injEq] at h3
      have hmem : ru ∈ rows := List.mem_of_getElem? hu
      rw [finj ru hmem _ (List.getElem_mem hi) h3, List.getElem?_eq_getElem hi]

/-! ### run merging, per-group minimum, set operations on rows -/

/-- **merge_runs**: the result has no two equal neighbours, and the input is the result with every
    value repeated a positive number of times (so exactly the consecutive repeats were removed,
    a value may still occur in several places) -/
theorem C06_merge_runs (l : List Int) :
    (∀ i, i + 1 < (mergeRuns l).length → (mergeRuns l)[i]? ≠ (mergeRuns l)[i + 1]?) ∧
    ∃ cs : List Nat, cs.length = (mergeRuns l).length ∧ (∀ c ∈ cs, 0 < c) ∧
      expandRuns (mergeRuns l) cs = l :=
  ⟨mergeRuns_adjacent l, mergeRuns_expand l⟩

example : mergeRuns [-1, -1, 0, 0, 1, 2, 0, 3, 3] = [-1, 0, 1, 2, 0, 3] := by decide

/-- **group_min**: one entry per class of equal labels (the classes of `C06_group_partition`, in
    ascending label order); the entry is a lower bound of the data of its class and is attained -/
theorem C06_group_min (groups data : List Int) :
    (groupMin groups data).length = (groupsOf intLe groups).length ∧
    ∀ (k : Nat) (g : List Nat), (groupsOf intLe groups)[k]? = some g →
      ∃ m : Int, (groupMin groups data)[k]? = some m ∧ (∀ i ∈ g, m ≤ data.getD i 0) ∧
        ∃ i ∈ g, m = data.getD i 0 := by
  refine ⟨by simp [groupMin], ?_⟩
  intro k g hk
  have hg : g ∈ groupsOf intLe groups := List.mem_of_getElem? hk
  have hne := groupsOf_ne_nil intLe groups g hg
  obtain ⟨h1, h2, h3⟩ := foldl_min_spec (g.map (fun i => data.getD i 0)) (data.getD (g.headD 0) 0)
  refine ⟨(g.map (fun i => data.getD i 0)).foldl min (data.getD (g.headD 0) 0), ?_, ?_, ?_⟩
  · simp only [groupMin, List.getElem?_map, hk, Option.map_some]
  · intro i hi
    exact h2 _ (List.mem_map.mpr ⟨i, hi, rfl⟩)
  · rcases h3 with h | h
    · exact ⟨g.headD 0, headD_mem hne, h⟩
    · obtain ⟨i, hi, e⟩ := List.mem_map.mp h
      exact ⟨i, hi, e.symm⟩


/-- **boolean_rows**: the intersection holds exactly the rows present in both arrays, the
    difference exactly the rows of `a` absent from `b`; each row once, in ascending order -/
theorem C06_boolean_rows (a b : List (List Int)) :
    (∀ r, r ∈ rowsInter a b ↔ r ∈ a ∧ r ∈ b) ∧ (rowsInter a b).Pairwise lexLt ∧
    (∀ r, r ∈ rowsDiff a b ↔ r ∈ a ∧ r ∉ b) ∧ (rowsDiff a b).Pairwise lexLt := by
  have key : ∀ l : List (List Int), (∀ r, r ∈ (l.mergeSort lexLe).eraseDups ↔ r ∈ l) ∧
      ((l.mergeSort lexLe).eraseDups).Pairwise lexLt := by
    intro l
    refine ⟨fun r => by rw [List.mem_eraseDups, List.mem_mergeSort], ?_⟩
    exact sorted_nodup_strict
      ((mergeSort_lex_sorted l).sublist (eraseDups_sublist _ _ (Nat.le_refl _)))
      (eraseDups_nodup _ _ (Nat.le_refl _))
  refine ⟨?_, (key _).2, ?_, (key _).2⟩
  · intro r; unfold rowsInter; rw [(key _).1]; simp
  · intro r; unfold rowsDiff; rw [(key _).1]; simp


/-! ### blocks -/

/-- without wrap-around `blocks` is the specification (maximal runs, then the filter) -/
theorem C06_blocks_nowrap_spec (data : List Int) (minLen : Nat) (maxLen : Option Nat) (onz : Bool) :
    blocks data minLen maxLen false onz = blocksSpec data minLen maxLen false onz := by
  simp only [blocks, blocksSpec, Bool.false_and, Bool.not_false, if_true, Bool.false_eq_true, if_false]
  rw [List.filter_map]
  congr 1
  apply List.filter_congr
  intro se hse
  have hse' : se ∈ consec (infl data) := by
    simpa [consec, infl, changePoints] using hse
  simp only [Function.comp, rangeFromTo_length]
  by_cases hd : data = []
  · subst hd
    have : se = (0, 0) := by simpa [consec, infl, changePoints] using hse'
    subst this; simp [rangeFromTo]
  · rw [rangeFromTo_headD (run_bounds hd hse').1]

/-- **the runs tile the array**: unfiltered, the blocks concatenate to `0, 1, …, n-1` — every index
    lies in exactly one block, blocks are contiguous and in order -/
theorem C06_blocks_tile (data : List Int) : (blocks data 0 none false false).flatten = List.range data.length := by
  have h := runs_tile data
  simp only [blocks, Bool.not_false, if_true]
  have : ((0 :: (List.filter (fun i => decide (i ≥ 1) && data.getD i 0 != data.getD (i - 1) 0)
      (List.range data.length)) ++ [data.length]).zip
      (0 :: (List.filter (fun i => decide (i ≥ 1) && data.getD i 0 != data.getD (i - 1) 0)
      (List.range data.length)) ++ [data.length]).tail) = consec (infl data) := by
    simp [consec, infl, changePoints]
  rw [this]
  have ft : ∀ l : List (Nat × Nat), l.filter (fun _ => true) = l := fun l => by simp
  simpa [ft] using h

/-- **blocks are exactly the maximal runs of equal values that pass the filter**: a block is an index
    range `s .. e-1` on which the data are constant, that cannot be extended to the left or right,
    whose length is within `[min_len, max_len]` (and whose value is non-zero when `only_nonzero`);
    and every such range is returned -/
theorem C06_blocks_runs (data : List Int) (hd : data ≠ []) (minLen : Nat) (maxLen : Option Nat) (onz : Bool)
    (b : List Nat) :
    b ∈ blocks data minLen maxLen false onz ↔
      ∃ s e, b = rangeFromTo s e ∧ s < e ∧ e ≤ data.length ∧
        (∀ i, s ≤ i → i < e → data.getD i 0 = data.getD s 0) ∧
        (s = 0 ∨ data.getD s 0 ≠ data.getD (s - 1) 0) ∧
        (e = data.length ∨ data.getD e 0 ≠ data.getD (e - 1) 0) ∧
        minLen ≤ e - s ∧ (∀ m, maxLen = some m → e - s ≤ m) ∧ (onz = true → data.getD s 0 ≠ 0) := by
  have hpairs : ((0 :: (List.filter (fun i => decide (i ≥ 1) && data.getD i 0 != data.getD (i - 1) 0)
      (List.range data.length)) ++ [data.length]).zip
      (0 :: (List.filter (fun i => decide (i ≥ 1) && data.getD i 0 != data.getD (i - 1) 0)
      (List.range data.length)) ++ [data.length]).tail) = consec (infl data) := by
    simp [consec, infl, changePoints]
  simp only [blocks, Bool.not_false, if_true, hpairs, List.mem_map, List.mem_filter]
  constructor
  · rintro ⟨se, ⟨hse, hok⟩, rfl⟩
    have hb := run_bounds hd hse
    refine ⟨se.1, se.2, rfl, hb.1, hb.2, run_constant hse, ?_, ?_, ?_⟩
    · by_cases h0 : se.1 = 0
      · exact Or.inl h0
      · exact Or.inr (run_left hd hse h0)
    · by_cases hn : se.2 = data.length
      · exact Or.inl hn
      · exact Or.inr (run_right hd hse hn)
    · simp only [Bool.and_eq_true, decide_eq_true_eq, Bool.or_eq_true, Bool.not_eq_true'] at hok
      refine ⟨hok.1.1, ?_, ?_⟩
      · intro m hm; have := hok.1.2; rw [hm] at this; simpa using this
      · intro ho; rcases hok.2 with h | h
        · rw [ho] at h; exact absurd h (by simp)
        · simpa using h
  · rintro ⟨s, e, rfl, hse, hen, hc, hl, hr, hmin, hmax, hz⟩
    refine ⟨(s, e), ⟨run_complete s e hse hen hc hl hr, ?_⟩, rfl⟩
    simp only [Bool.and_eq_true, decide_eq_true_eq, Bool.or_eq_true, Bool.not_eq_true']
    refine ⟨⟨hmin, ?_⟩, ?_⟩
    · cases maxLen with
      | none => rfl
      | some m => simpa using hmax m rfl
    · cases onz with
      | false => exact Or.inl rfl
      | true => exact Or.inr (by simpa using hz rfl)

example : blocks [5, 5, 0, 0, 0, 7] 2 none false false = [[0, 1], [2, 3, 4]] ∧
    blocks [5, 5, 0, 0, 0, 7] 2 none false true = [[0, 1]] := by decide


/-- **wrap-around** (`wrap=True`) when nothing is filtered (`min_len ≤ 1`, no `max_len`, `only_nonzero=False`): the
    code returns the specification - the runs as they are when the first and last value differ or there is a single
    run; otherwise the last and the first run joined into one block (placed first) followed by the runs in
    between.  With filters the two listed findings apply (`C06_blocks_wrap_witnesses`) -/
theorem C06_blocks_wrap_unfiltered_partial (data : List Int) (hd : data ≠ []) (minLen : Nat) (hm : minLen ≤ 1) :
    blocks data minLen none true false = blocksSpec data minLen none true false :=
  blocks_wrap_unfiltered data hd minLen hm

example : blocks [7, 7, 1, 2, 7] 1 none true false = [[4, 0, 1], [2], [3]] := by decide

/-- the two wrap-around defects of the current source (known findings), as theorems about the model:
    an all-equal array whose single run is filtered out comes back with every index twice, and
    `max_len` is not applied to the merged wrap-around run -/
theorem C06_blocks_wrap_witnesses :
    blocks [0] 2 none true false = [[0, 0]] ∧ blocksSpec [0] 2 none true false = [] ∧
    blocks [0, 0, 1, 0] 1 (some 2) true false = [[3, 0, 1], [2]] ∧
    blocksSpec [0, 0, 1, 0] 1 (some 2) true false = [[2]] := by decide


/-! ### (G) the packing constants of the source -/

/-- (G) **`hashable_rows` in the current source packs with the constants the theorems are about**: up to 4 columns;
    for 2, 3, 4 columns `precision = 64 / cols` and `threshold = 2^(precision-1) - 1` as in the model; the range
    guard is `d_max < threshold and d_min > -threshold`, both strict (the guard of `C06_pack_injective`;
    `C06_guard_needed` shows one step more collides) -/
theorem C06_packing_constants_of_source :
    TV.Generated.C06.maxCols = 4 ∧
    TV.Generated.C06.packRows = [2, 3, 4].map (fun c => (c, precision c, threshold c)) ∧
    TV.Generated.C06.guard = [("d_max", "lt", "threshold"), ("d_min", "gt", "-threshold")] := by decide

/-- **unique_value_in_row**: every row of the mask has the length of its row and at most one `True`; it has one exactly
    when some value occurs exactly once in the row, and a marked entry always holds such a value -/
theorem C06_unique_value_in_row (rows : List (List Int)) :
    uniqueValueInRow rows = rows.map uviRow ∧
    ∀ r : List Int, (uviRow r).length = r.length ∧ (uviRow r).count true ≤ 1 ∧
      ((uviRow r).count true = 1 ↔ ∃ v ∈ r, r.count v = 1) ∧
      (∀ i : Nat, (uviRow r)[i]? = some true → ∃ v, r[i]? = some v ∧ r.count v = 1) :=
  ⟨uniqueValueInRow_eq rows, uviRow_spec⟩

/-- **unique_bincount** (non-negative integers): the unique values are the distinct values in ascending order, the
    inverse rebuilds the input (`unique[inverse[i]] = values[i]`) and the counts are the numbers of occurrences -/
theorem C06_unique_bincount (vs : List Nat) (hne : vs ≠ []) :
    let r := uniqueBincount vs
    r.1.Pairwise (· < ·) ∧ (∀ v, v ∈ r.1 ↔ v ∈ vs) ∧
    (∀ i : Nat, i < vs.length → ∃ k, r.2.1[i]? = some k ∧ r.1[k]? = vs[i]?) ∧
    (r.2.2 = r.1.map (fun u => vs.count u)) :=
  uniqueBincount_spec vs hne

example : uniqueBincount [3, 0, 3, 5] = ([0, 3, 5], [1, 0, 1, 2], [1, 2, 1]) ∧
    uniqueValueInRow [[-1, 1, 1], [2, 2, 2], [4, 5, 6]] = [[true, false, false], [false, false, false], [false, false, true]] := by
  decide

end TV.C06
