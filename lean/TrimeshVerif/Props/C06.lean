/-
C06 — Row grouping and uniqueness primitives are exact.
Property theorems only; helper lemmas live in Proofs/.
-/
import TrimeshVerif.Proofs.Grouping
namespace TV.C06
open TV TV.Grouping

/-- the guard of `hashable_rows` on one value, as an explicit predicate -/
def InGuard (cols : Nat) (v : Int) : Prop := v < threshold cols ∧ -(threshold cols) < v

private theorem field_bound (cols : Nat) (hc : cols = 2 ∨ cols = 3 ∨ cols = 4) (v : Int) (h : InGuard cols v) :
    ((v + (threshold cols + 1)) % 2 ^ 64).toNat = (v + (threshold cols + 1)).toNat ∧
    (v + (threshold cols + 1)).toNat < 2 ^ precision cols ∧ 0 ≤ v + (threshold cols + 1) := by
  unfold InGuard at h
  rcases hc with rfl | rfl | rfl <;> simp only [threshold, precision] at h ⊢ <;> omega

/-- **Packing is injective under the code's guard** (2, 3 or 4 columns; all integers): two rows
    inside the guard that pack to the same uint64 are equal.  No overflow, no carry between fields. -/
theorem C06_pack_injective (cols : Nat) (hc : cols = 2 ∨ cols = 3 ∨ cols = 4)
    (r r' : List Int) (hl : r.length = cols) (hl' : r'.length = cols)
    (hg : ∀ v ∈ r, InGuard cols v) (hg' : ∀ v ∈ r', InGuard cols v)
    (h : packRow cols r = packRow cols r') : r = r' := by
  unfold packRow at h
  have hp : cols * precision cols ≤ 64 := by
    rcases hc with rfl | rfl | rfl <;> simp [precision]
  have key := packFields_inj (precision cols) _ _ (by simp [hl, hl'])
    (by intro y hy
        obtain ⟨v, hv, rfl⟩ := List.mem_map.mp hy
        have := field_bound cols hc v (hg v hv); rw [this.1]; exact this.2.1)
    (by intro y hy
        obtain ⟨v, hv, rfl⟩ := List.mem_map.mp hy
        have := field_bound cols hc v (hg' v hv); rw [this.1]; exact this.2.1)
    (by simpa [hl] using hp) h
  -- the offset map is injective on guarded values
  have inj : ∀ (a b : List Int), (∀ v ∈ a, InGuard cols v) → (∀ v ∈ b, InGuard cols v) →
      a.map (fun v => ((v + (threshold cols + 1)) % 2 ^ 64).toNat)
        = b.map (fun v => ((v + (threshold cols + 1)) % 2 ^ 64).toNat) → a = b := by
    intro a
    induction a with
    | nil => intro b _ _ e; cases b with
      | nil => rfl
      | cons _ _ => simp at e
    | cons x xs ih =>
      intro b ha hb e
      cases b with
      | nil => simp at e
      | cons y ys =>
        simp only [List.map_cons, List.cons.injEq] at e
        have hx := field_bound cols hc x (ha x (by simp))
        have hy := field_bound cols hc y (hb y (by simp))
        have e1 := e.1
        rw [hx.1, hy.1] at e1
        have : x = y := by have := hx.2.2; have := hy.2.2; omega
        rw [this, ih ys (fun v hv => ha v (List.mem_cons_of_mem _ hv))
          (fun v hv => hb v (List.mem_cons_of_mem _ hv)) e.2]
  exact inj r r' hg hg' key

/-- the guard is needed: one step beyond it two different rows pack to the same integer
    (the off-by-one the range check protects against) -/
theorem C06_guard_needed : packRow 2 [2 ^ 31, 0] = packRow 2 [-(2 ^ 31), 1] ∧
    ([2 ^ 31, 0] : List Int) ≠ [-(2 ^ 31), 1] := by decide

/-- `hashable_rows` is a faithful relabelling of the rows of one array: equal rows get equal
    hashes and different rows different hashes, on the packed route and on the fallback route -/
theorem C06_hashable_faithful (cols : Nat) (rows : List (List Int)) (hl : ∀ r ∈ rows, r.length = cols) :
    ∃ f : List Int → List Int, hashableRows cols rows = rows.map f ∧
      ∀ r ∈ rows, ∀ r' ∈ rows, f r = f r' → r = r' := by
  unfold hashableRows
  by_cases h1 : cols = 1
  · exact ⟨id, by simp [h1], fun _ _ _ _ e => e⟩
  · by_cases h2 : (decide (cols ≤ 4) && guardOk cols rows) = true
    · refine ⟨fun r => [(packRow cols r : Int)], by simp [h1, h2], ?_⟩
      intro r hr r' hr' e
      simp only [Bool.and_eq_true, decide_eq_true_eq] at h2
      have hg : ∀ r ∈ rows, ∀ v ∈ r, InGuard cols v := by
        intro r hr v hv
        have := List.all_eq_true.mp h2.2 r hr
        have := List.all_eq_true.mp this v hv
        simpa [InGuard] using this
      by_cases h0 : cols = 0
      · have a := hl r hr; have b := hl r' hr'
        rw [h0] at a b
        rw [List.length_eq_zero_iff.mp a, List.length_eq_zero_iff.mp b]
      · have hc : cols = 2 ∨ cols = 3 ∨ cols = 4 := by omega
        have e' : packRow cols r = packRow cols r' := by
          have e2 : (packRow cols r : Int) = (packRow cols r' : Int) := by simpa using e
          exact Int.ofNat.inj e2
        exact C06_pack_injective cols hc r r' (hl r hr) (hl r' hr') (hg r hr) (hg r' hr') e'
    · refine ⟨id, ?_, fun _ _ _ _ e => e⟩
      simp only [h1, if_false, h2, List.map_id]
      rfl

/-- **Grouping partitions exactly** (`grouping.group` on any values with a total order, any
    `min_len` / `max_len`): the groups returned are exactly the classes of equal values whose size
    passes the filter; every index is in exactly one class; classes are duplicate-free. -/
theorem C06_group_partition {α : Type} [DecidableEq α] (le : α → α → Bool) (hle : IsOrder le)
    (vs : List α) (minLen maxLen : Option Nat) :
    -- the unfiltered groups partition the indices by equality of values
    (∀ i j, i < vs.length → j < vs.length →
        ((∃ g ∈ groupsOf le vs, i ∈ g ∧ j ∈ g) ↔ vs[i]? = vs[j]?)) ∧
    (∀ i, i < vs.length → (groupsOf le vs).flatten.count i = 1) ∧
    -- the filter keeps exactly the classes whose size passes
    (∀ g, g ∈ group le vs minLen maxLen ↔ g ∈ groupsOf le vs ∧ lenOk minLen maxLen g.length = true) := by
  have h := groupsOf_isGrouping hle vs
  refine ⟨fun i j hi hj => h.iff_same_group hi hj, fun i hi => h.count_one hi, ?_⟩
  intro g; simp [group]

/-- **group_rows**: two row indices land in the same group iff the rows are equal -/
theorem C06_group_rows (cols : Nat) (rows : List (List Int)) (hl : ∀ r ∈ rows, r.length = cols)
    (i j : Nat) (hi : i < rows.length) (hj : j < rows.length) :
    (∃ g ∈ groupsOf lexLe (hashableRows cols rows), i ∈ g ∧ j ∈ g) ↔ rows[i]? = rows[j]? := by
  obtain ⟨f, hf, finj⟩ := C06_hashable_faithful cols rows hl
  have h := groupsOf_isGrouping lexLe_isOrder (hashableRows cols rows)
  have hlen : (hashableRows cols rows).length = rows.length := by rw [hf]; simp
  rw [h.iff_same_group (by omega) (by omega), hf]
  simp only [List.getElem?_map, List.getElem?_eq_getElem hi, List.getElem?_eq_getElem hj, Option.map_some,
    Option.some.injEq]
  constructor
  · intro e; exact finj _ (List.getElem_mem hi) _ (List.getElem_mem hj) e
  · intro e; rw [e]

/-- **unique_rows / np.unique model**: the returned indices and inverse reconstruct the input,
    the selected values are pairwise different, and each selected index is the first occurrence
    of its value — in sorted order and in `keep_order` (first-occurrence) order alike -/
theorem C06_unique {α : Type} [DecidableEq α] (le : α → α → Bool) (hle : IsOrder le) (vs : List α)
    (keepOrder : Bool) :
    let r := if keepOrder then uniqueOrderedIdxInv le vs else uniqueIdxInv le vs
    (∀ i, i < vs.length → ∃ k u, r.2[i]? = some k ∧ r.1[k]? = some u ∧ vs[u]? = vs[i]?) ∧
    r.1.Pairwise (fun u u' => vs[u]? ≠ vs[u']?) ∧
    (∀ u ∈ r.1, ∀ j, j < u → vs[j]? ≠ vs[u]?) ∧
    (keepOrder = true → r.1.Pairwise (· ≤ ·)) := by
  have h := groupsOf_isGrouping hle vs
  cases keepOrder with
  | false =>
    simp only [Bool.false_eq_true, if_false]
    exact ⟨fun i hi => h.unique_reconstruct hi, h.unique_distinct, fun u hu => h.unique_first hu,
      fun e => absurd e (by simp)⟩
  | true =>
    simp only [if_true]
    have h' := h.of_perm (orderByHead_perm (groupsOf le vs)).symm
    exact ⟨fun i hi => h'.unique_reconstruct hi, h'.unique_distinct, fun u hu => h'.unique_first hu,
      fun _ => orderByHead_sorted _⟩

/-- unique_rows on rows: reconstruction at the level of rows, through the hash -/
theorem C06_unique_rows (cols : Nat) (rows : List (List Int)) (hl : ∀ r ∈ rows, r.length = cols)
    (keepOrder : Bool) (i : Nat) (hi : i < rows.length) :
    ∃ k u, (uniqueRows cols rows keepOrder).2[i]? = some k ∧
      (uniqueRows cols rows keepOrder).1[k]? = some u ∧ rows[u]? = rows[i]? := by
  obtain ⟨f, hf, finj⟩ := C06_hashable_faithful cols rows hl
  have hlen : (hashableRows cols rows).length = rows.length := by rw [hf]; simp
  have h := (C06_unique lexLe lexLe_isOrder (hashableRows cols rows) keepOrder).1 i (by omega)
  obtain ⟨k, u, h1, h2, h3⟩ := h
  refine ⟨k, u, ?_, ?_, ?_⟩
  · unfold uniqueRows; cases keepOrder <;> simpa using h1
  · unfold uniqueRows; cases keepOrder <;> simpa using h2
  · rw [hf] at h3
    simp only [List.getElem?_map, List.getElem?_eq_getElem hi, Option.map_some] at h3
    cases hu : rows[u]? with
    | none => simp [hu] at h3
    | some ru =>
      simp only [hu, Option.map_some, Option.some.injEq] at h3
      have hmem : ru ∈ rows := List.mem_of_getElem? hu
      rw [finj ru hmem _ (List.getElem_mem hi) h3, List.getElem?_eq_getElem hi]

end TV.C06
