/-
C07 — Re-indexing operations never move triangles or misalign attached data.
Property theorems only; helper lemmas live in Proofs/Reindex.lean.
`α` is the whole per-vertex payload (position, colour, normal, uv, attributes), `β` the per-face payload:
a statement about `triangles` is therefore a statement about corner positions *and* every attached datum.
-/
import TrimeshVerif.Proofs.Reindex
import TrimeshVerif.Proofs.ReindexInt
import TrimeshVerif.Generated.C07Table
namespace TV.C07
open TV TV.Reindex

variable {α β : Type}

/-- face masking (boolean): surviving triangles are the masked triangles in their original order and
    per-face data is masked alike, so it stays attached to the same face -/
theorem C07_update_faces_bool (m : Mesh α β) (mask : List Bool) :
    triangles (updateFacesBool m mask) = maskFilter (triangles m) mask ∧
    (updateFacesBool m mask).FA = maskFilter m.FA mask ∧
    (updateFacesBool m mask).V = m.V ∧
    (m.F.length = m.FA.length → (updateFacesBool m mask).F.length = (updateFacesBool m mask).FA.length) ∧
    (InRange m → InRange (updateFacesBool m mask)) := by
  exact updateFacesBool_spec m mask

/-- face selection by integer indices (order and repetition as given) -/
theorem C07_update_faces_idx (m : Mesh α β) (idx : List Nat) (h : ∀ i ∈ idx, i < m.F.length)
    (hFA : m.F.length = m.FA.length) :
    triangles (updateFacesIdx m idx) = idx.filterMap ((triangles m)[·]?) ∧
    (updateFacesIdx m idx).FA = idx.filterMap (m.FA[·]?) ∧
    (updateFacesIdx m idx).F.length = idx.length ∧ (updateFacesIdx m idx).FA.length = idx.length ∧
    (InRange m → InRange (updateFacesIdx m idx)) := by
  exact updateFacesIdx_spec m idx h hFA

/-- vertex masking that keeps every referenced vertex leaves every triangle unchanged, keeps the
    surviving vertex payloads in their original order, and faces index existing vertices -/
theorem C07_update_vertices_bool (m : Mesh α β) (mask : List Bool) (hlen : mask.length = m.V.length)
    (hr : InRange m)
    (hkeep : ∀ f ∈ m.F, mask.getD f.1 false = true ∧ mask.getD f.2.1 false = true ∧ mask.getD f.2.2 false = true) :
    triangles (updateVerticesBool m mask) = triangles m ∧
    (updateVerticesBool m mask).V = maskFilter m.V mask ∧
    (updateVerticesBool m mask).FA = m.FA ∧
    InRange (updateVerticesBool m mask) := by
  -- `hlen` is not needed by the proof (kept in the statement; referenced only to silence the linter)
  exact (fun _ => updateVerticesBool_spec m mask hr hkeep) hlen

/-- the guard above is needed: the code re-points a corner whose vertex was dropped at vertex 0 -/
theorem C07_update_vertices_dropped_witness :
    let m : Mesh Nat Unit := { V := [10, 11, 12, 13], F := [(1, 2, 3)], FA := [()] }
    triangles (updateVerticesBool m [true, false, true, true]) ≠ triangles m := by
  decide

/-- **vertex selection by integer indices** (`update_vertices(mask, inverse)` with an index mask, kept vertices in the
    order given - what `unmerge_vertices` and `merge_vertices` pass): if every kept index exists and the inverse sends
    every vertex some face uses to a position holding that vertex, every triangle is unchanged, and the new vertex
    array is the selection in mask order -/
theorem C07_update_vertices_int (m : Mesh α β) (keep inverse : List Nat)
    (hk : ∀ k ∈ keep, k < m.V.length)
    (hinv : ∀ f ∈ m.F, keep[inverse.getD f.1 0]? = some f.1 ∧ keep[inverse.getD f.2.1 0]? = some f.2.1 ∧
      keep[inverse.getD f.2.2 0]? = some f.2.2) :
    triangles (updateVerticesInv m keep inverse) = triangles m ∧
    (updateVerticesInv m keep inverse).V = keep.filterMap (m.V[·]?) ∧
    (updateVerticesInv m keep inverse).FA = m.FA :=
  updateVerticesInv_spec m keep inverse hk hinv

/-- the order of an index mask matters: `unmerge_vertices` selects the corners in face order and then numbers the
    faces `0, 1, 2, …`; the same selection taken as a set (in ascending order) moves the corners of a face whose
    indices are not ascending -/
theorem C07_index_mask_order_witness :
    let m : Mesh Nat Unit := { V := [10, 11, 12], F := [(2, 0, 1)], FA := [()] }
    triangles (updateVerticesInv m [2, 0, 1] [1, 2, 0]) = triangles m ∧
    triangles ({ m with V := [0, 1, 2].filterMap (m.V[·]?), F := [(0, 1, 2)] } : Mesh Nat Unit) ≠ triangles m := by
  decide

/-- dropping unreferenced vertices never moves a triangle -/
theorem C07_remove_unreferenced (m : Mesh α β) (hr : InRange m) :
    triangles (removeUnreferenced m) = triangles m ∧ InRange (removeUnreferenced m) ∧
    (removeUnreferenced m).V = maskFilter m.V (referencedMask m) ∧
    (removeUnreferenced m).FA = m.FA := by
  exact removeUnreferenced_spec m hr

/-- un-merging keeps every triangle, makes faces index existing vertices, each exactly once -/
theorem C07_unmerge (m : Mesh α β) (hr : InRange m) :
    triangles (unmerge m) = triangles m ∧ InRange (unmerge m) ∧
    (unmerge m).V.length = 3 * m.F.length ∧ (unmerge m).FA = m.FA := by
  exact unmerge_spec m hr

/-- merging vertices by any key: every corner of every triangle keeps its key (so positions agree
    within the merge tolerance that defines the key), the corner payload is the payload of the first
    referenced vertex carrying that key, faces stay in range, face order and face data are unchanged,
    and no two kept vertices share a key -/
theorem C07_merge {κ : Type} [DecidableEq κ] (le : κ → κ → Bool) (hle : IsOrder le) (key : α → κ)
    (m : Mesh α β) (hr : InRange m) :
    let m' := mergeVertices le key m
    InRange m' ∧ m'.F.length = m.F.length ∧ m'.FA = m.FA ∧
    (∀ i (h : i < m.F.length) (h' : i < m'.F.length),
      (m'.V[(m'.F[i]).1]?).map key = (m.V[(m.F[i]).1]?).map key ∧
      (m'.V[(m'.F[i]).2.1]?).map key = (m.V[(m.F[i]).2.1]?).map key ∧
      (m'.V[(m'.F[i]).2.2]?).map key = (m.V[(m.F[i]).2.2]?).map key) ∧
    (m'.V.map key).Nodup ∧
    (∀ a ∈ m'.V, ∃ v, m.V[v]? = some a ∧ (referencedMask m).getD v false = true ∧
        ∀ w, w < v → (referencedMask m).getD w false = true → (m.V[w]?).map key ≠ some (key a)) := by
  exact mergeVertices_spec le hle key m hr

/-- stacking two meshes: triangles and face data are concatenated, faces stay in range -/
theorem C07_append (a b : Mesh α β) (ha : InRange a) (hb : InRange b) :
    triangles (append a b) = triangles a ++ triangles b ∧ (append a b).FA = a.FA ++ b.FA ∧
    InRange (append a b) := by
  exact append_spec a b ha hb

/-- concatenating any list of meshes concatenates their triangles in order -/
theorem C07_concatenate (ms : List (Mesh α β)) (h : ∀ m ∈ ms, InRange m) :
    triangles (concatenate ms) = (ms.map triangles).flatten ∧
    (concatenate ms).FA = (ms.map (·.FA)).flatten ∧ InRange (concatenate ms) := by
  exact concatenate_spec ms h

/-- a submesh holds exactly the selected triangles, in the selected order, with their face data -/
theorem C07_submesh (m : Mesh α β) (idx : List Nat) (hr : InRange m) (h : ∀ i ∈ idx, i < m.F.length)
    (hFA : m.F.length = m.FA.length) :
    triangles (submesh m idx) = idx.filterMap ((triangles m)[·]?) ∧
    (submesh m idx).FA = idx.filterMap (m.FA[·]?) ∧ InRange (submesh m idx) := by
  exact submesh_spec m idx hr h hFA

/-- splitting along any partition of the faces and concatenating the parts reproduces the original
    triangle multiset (and the attached face data travels with its triangle) -/
theorem C07_split_concat (m : Mesh α β) (comps : List (List Nat)) (hr : InRange m)
    (hFA : m.F.length = m.FA.length)
    (hpart : comps.flatten.Perm (List.range m.F.length)) :
    ((triangles (concatenate (split m comps))).zip (concatenate (split m comps)).FA).Perm
      ((triangles m).zip m.FA) := by
  exact split_concat_spec m comps hr hFA hpart

/-- the duplicate-face mask marks exactly the first occurrence of every unordered index triple -/
theorem C07_unique_faces (m : Mesh α β) (i : Nat) (hi : i < m.F.length) :
    (uniqueFacesMask m)[i]? = some (decide (∀ j, j < i → (m.F.map sort3)[j]? ≠ (m.F.map sort3)[i]?)) := by
  exact uniqueFacesMask_spec m i hi

/-! non-vacuity (a test, labelled as such) -/
example : let m : Mesh Nat Unit := { V := [10, 11, 12, 13, 14], F := [(1, 2, 4), (4, 2, 1)], FA := [(), ()] }
    triangles (removeUnreferenced m) = triangles m ∧ (removeUnreferenced m).V = [11, 12, 14] := by decide


/-! ### (G) what the masking methods of the source slice -/

/-- (G) **every array attached to faces / vertices is sliced alongside them in the current source**:
    `update_faces(mask)` indexes the faces, the cached face normals, every face attribute and the visual with the
    mask; `update_vertices(mask)` the vertices, the cached vertex normals, every vertex attribute and the visual, and
    re-points the faces through `inverse` - the payloads of `C07_update_faces_bool / _idx`, `C07_update_vertices_bool` -/
theorem C07_masking_slices_every_payload :
    TV.Generated.C07.updateFacesSlices = ["face_attributes", "face_normals", "faces", "visual"] ∧
    TV.Generated.C07.updateVerticesSlices =
      ["faces<-inverse", "vertex_attributes", "vertex_normals", "vertices", "visual"] := by decide

end TV.C07
