/-
C08 — Export then load round-trips geometry in every supported format.
Property theorems only (the byte layouts that are trimesh's own code); helper lemmas live in Proofs/Codec.lean.
-/
import TrimeshVerif.Proofs.Codec
import TrimeshVerif.Generated.C08Tables
namespace TV.C08
open TV.Codec

/-- a 32-bit word survives its four little-endian bytes (float32 values are bit-exact) -/
theorem C08_le32_roundtrip (n : Nat) (h : n < 4294967296) : de32 (le32 n) = n ∧ (le32 n).length = 4 ∧ isBytes (le32 n) := by
  exact ⟨de32_le32 n h, le32_length n, le32_isBytes n⟩

/-- and four bytes survive the word -/
theorem C08_de32_roundtrip (a b c d : Nat) (ha : a < 256) (hb : b < 256) (hc : c < 256) (hd : d < 256) :
    le32 (de32 [a, b, c, d]) = [a, b, c, d] := by
  exact le32_de32 a b c d ha hb hc hd

/-- **records come back in file order**: cutting a concatenation of `n`-byte records into `n`-byte pieces
    returns exactly the records, in order (no permutation, no truncation) -/
theorem C08_chunks_flatten {α : Type} (n : Nat) (hn : 0 < n) (recs : List (List α)) (h : ∀ r ∈ recs, r.length = n) :
    chunks n recs.flatten = recs := by
  exact chunks_flatten n hn recs h

/-- one STL record (12 words + attribute) is 50 bytes and decodes to itself -/
theorem C08_stl_record (r : StlRec) (h : r.wf) : (encRec r).length = 50 ∧ decRec (encRec r) = r := by
  exact ⟨encRec_length r h.1, decRec_encRec r h⟩

/-- **binary STL is lossless**: for every 80-byte header and every list of fewer than 2^32 well-formed
    records, loading the exported bytes returns the header and the same records in the same order -/
theorem C08_stl_roundtrip (hdr : Bytes) (recs : List StlRec) (hh : hdr.length = 80)
    (hn : recs.length < 4294967296) (hw : ∀ r ∈ recs, r.wf) :
    decodeStl (encodeStl hdr recs) = .ok (hdr, recs) := by
  exact decodeStl_encodeStl hdr recs hh hn hw

/-- whatever the loader accepts has exactly the length its header announces (nothing is read past the
    data, nothing allocated beyond the input) -/
theorem C08_stl_accepts_length (b hdr : Bytes) (recs : List StlRec) (h : decodeStl b = .ok (hdr, recs)) :
    b.length = 84 + 50 * recs.length ∧ hdr = b.take 80 := by
  exact decodeStl_accepts b hdr recs h

/-- the JSON chunk is padded to a 4-byte boundary (by 1..4 spaces, as the exporter does) -/
theorem C08_padJson (j : Bytes) : ((padJson j).length + 20) % 4 = 0 ∧ ∃ k, 1 ≤ k ∧ k ≤ 4 ∧ padJson j = j ++ List.replicate k 32 := by
  refine ⟨by rw [padJson_length]; omega, 4 - (j.length + 20) % 4, by omega, by omega, rfl⟩

/-- **GLB framing is lossless**: the loader recovers the (padded) JSON chunk and the binary chunk exactly -/
theorem C08_glb_roundtrip (json bin : Bytes) (hj : json.length + 4 < 4294967296) (hb : bin.length < 4294967296)
    (ht : (padJson json).length + bin.length + 28 < 4294967296) :
    decodeGlb (encodeGlb json bin) = .ok (padJson json, [bin]) := by
  exact decodeGlb_encodeGlb json bin hj hb ht

/-- **bufferViews tile the binary chunk**: view `i` of the concatenated items reads back exactly item `i`,
    and consecutive views are adjacent (no overlap, no gap) -/
theorem C08_views (items : List Bytes) (i : Nat) (hi : i < items.length) :
    ∃ v, (views items)[i]? = some v ∧ slice items.flatten v = items[i] := by
  have := viewsAux_slice items i hi 0 [] rfl
  simpa [views] using this

theorem C08_views_adjacent (items : List Bytes) (i : Nat) (v w : Nat × Nat)
    (hv : (views items)[i]? = some v) (hw : (views items)[i + 1]? = some w) : w.1 = v.1 + v.2 := by
  exact viewsAux_adjacent items i 0 v w hv hw

/-- padded items keep every view offset 4-byte aligned (`assert (current_pos % 4) == 0`) -/
theorem C08_views_aligned (items : List Bytes) (h : ∀ it ∈ items, it.length % 4 = 0) :
    ∀ v ∈ views items, v.1 % 4 = 0 := by
  exact viewsAux_aligned items h 0 rfl

/-- `_byte_pad` only appends, to the next multiple of four -/
theorem C08_pad4 (fill : Nat) (b : Bytes) : (pad4 fill b).length % 4 = 0 ∧ (pad4 fill b).take b.length = b ∧
    (pad4 fill b).length < b.length + 4 := by
  unfold pad4
  split
  · rename_i h; exact ⟨h, by simp, by omega⟩
  · refine ⟨by simp; omega, by simp, by simp; omega⟩

/-- **packed PLY body**: a vertex block followed by a face block is split back into the same records -/
theorem C08_ply_body (vs fs : Nat) (hvs : 0 < vs) (hfs : 0 < fs) (vrecs frecs : List Bytes)
    (hv : ∀ r ∈ vrecs, r.length = vs) (hf : ∀ r ∈ frecs, r.length = fs) (tail : Bytes) :
    splitBody vrecs.length vs frecs.length fs (vrecs.flatten ++ frecs.flatten ++ tail) = (vrecs, frecs) := by
  have hlv := flatten_length_const vs vrecs hv
  have hlf := flatten_length_const fs frecs hf
  unfold splitBody
  rw [List.append_assoc, List.take_left' hlv, List.drop_left' hlv, List.take_left' hlf,
    chunks_flatten vs hvs vrecs hv, chunks_flatten fs hfs frecs hf]

/-- **text formats**: rows of delimiter-free tokens written with a column and a row delimiter parse back
    to the same rows in the same order (every row non-empty, at least one row) -/
theorem C08_text_rows (col row : Char) (hcr : col ≠ row) (rows : List (List Tok)) (hne : rows ≠ [])
    (hrow : ∀ r ∈ rows, r ≠ []) (htok : ∀ r ∈ rows, ∀ t ∈ r, col ∉ t ∧ row ∉ t) :
    parseRows col row (formatRows col row rows) = rows := by
  unfold parseRows formatRows
  rw [splitAt_joinWith row _ (by simpa using hne) (by
    intro t ht
    obtain ⟨r, hr, rfl⟩ := List.mem_map.1 ht
    exact notMem_joinWith col row hcr r (fun t ht => (htok r hr t ht).2)), List.map_map]
  conv => rhs; rw [← List.map_id rows]
  apply List.map_congr_left
  intro r hr
  simpa using splitAt_joinWith col r (hrow r hr) (fun t ht => (htok r hr t ht).1)

/-- **base64 is lossless** (the dict64 / base64 array encodings) -/
theorem C08_base64 (b : Bytes) (h : isBytes b) : b64dec (b64enc b) = b := by
  exact b64dec_b64enc b h


/-! ### (G) layout tables regenerated from the source on every run (Generated/C08Tables.lean) -/

section tables
open TV.Generated.C08

/-- width in bytes of a numpy type code such as `i4`, `<f4`, `u2`, `V` (one byte per element) -/
def codeWidth (c : String) : Nat :=
  match c.toList.reverse with
  | '1' :: _ => 1 | '2' :: _ => 2 | '4' :: _ => 4 | '8' :: _ => 8 | _ => 1

/-- (G) **PLY type names survive export and reload**: the name the exporter writes for a numpy type
    (`_inverse_dtypes`) is read back by the loader (`_dtypes`) as the same numpy type, for every entry -/
theorem C08_ply_type_names_roundtrip :
    plyInverse.all (fun kv => plyDtypes.lookup kv.2 == some kv.1) = true := by decide

/-- (G) **the binary STL record of the source is the record of the model**: normals (3 x float32), vertices
    (9 x float32), attribute (uint16), in that order - twelve 32-bit words and one 16-bit word, 50 bytes
    (`C08_stl_record`); the header is 80 bytes and a little-endian uint32 count, 84 bytes -/
theorem C08_stl_layout :
    stlRecord = [("normals", "<f4", 3), ("vertices", "<f4", 9), ("attributes", "<u2", 1)] ∧
    (stlRecord.map (fun f => codeWidth f.2.1 * f.2.2)).sum = 50 ∧
    stlHeader = [("header", "V", 80), ("face_count", "<u4", 1)] ∧
    (stlHeader.map (fun f => codeWidth f.2.1 * f.2.2)).sum = 84 := by decide

/-- (G) **GLB magic numbers**: the words of the source are the ones the framing model writes and tests, and
    they spell `glTF`, `JSON`, `BIN\0` in little-endian bytes -/
theorem C08_gltf_magic :
    gltfMagic = [("gltf", magicGltf), ("json", magicJson), ("bin", magicBin)] ∧
    le32 magicGltf = [0x67, 0x6C, 0x54, 0x46] ∧ le32 magicJson = [0x4A, 0x53, 0x4F, 0x4E] ∧
    le32 magicBin = [0x42, 0x49, 0x4E, 0x00] := by decide

/-- (G) glTF component types are little-endian codes of distinct numbers, and accessor shapes have the
    component counts of the specification -/
theorem C08_gltf_types :
    gltfDtypes.all (fun kv => kv.2.toList.head? == some '<') = true ∧
    (gltfDtypes.map (·.1)).Nodup ∧ (gltfDtypes.map (·.2)).Nodup ∧
    gltfShapes = [("SCALAR", 1), ("VEC2", 2), ("VEC3", 3), ("VEC4", 4), ("MAT2", 4), ("MAT3", 9), ("MAT4", 16)] := by
  decide

/-- (G) the loader's PLY table maps every name to a code whose width is the digit it ends with, and the
    exporter never writes a name the loader does not know -/
theorem C08_ply_tables_total :
    plyInverse.all (fun kv => (plyDtypes.lookup kv.2).isSome) = true ∧
    plyDtypes.all (fun kv => codeWidth kv.2 == 1 || codeWidth kv.2 == 2 || codeWidth kv.2 == 4 || codeWidth kv.2 == 8) = true := by
  decide

end tables

end TV.C08
