/-
C09 — Scene-graph transforms are the product of the current edges along the path.
Property theorems only; helper lemmas live in Proofs/Forest.lean.
`G` is any group of edge matrices, `N` any node type: the theorems hold for every history of
updates, re-parentings, removals, base-frame changes and interleaved queries.
-/
import TrimeshVerif.Proofs.Forest
import TrimeshVerif.Proofs.ForestEdgelist
import TrimeshVerif.Generated.C09Table
namespace TV.C09
open TV.Forest

variable {N G : Type} [DecidableEq N]

/-- well-formed forest: one parent entry per child, one data entry per edge, `parents` and the keys of
    `edge_data` describe the same edges, and the parent relation is acyclic -/
structure WF (f : Forest N G) : Prop where
  parents_nodup : (f.parents.map (·.1)).Nodup
  edges_nodup : (f.edges.map (·.1)).Nodup
  consistent : ∀ u v, (v, u) ∈ f.parents ↔ ∃ g, ((u, v), g) ∈ f.edges
  acyclic : ∃ rank : N → Nat, ∀ p ∈ f.parents, rank p.2 < rank p.1

/-- an update `(u → v)` does not close a cycle: `v` is not `u` nor an ancestor of `u` -/
def NoCycle (f : Forest N G) (u v : N) : Prop := v ∉ ancestors f f.parents.length u

/-- the empty forest is well formed, and `add_edge` (including re-parenting an existing child and
    overwriting an existing edge) and `remove_node` keep it well formed -/
theorem C09_wf_preserved (f : Forest N G) (h : WF f) (u v : N) (g : G) :
    WF (Forest.empty : Forest N G) ∧ (NoCycle f u v → WF (addEdge f u v g)) ∧ WF (removeNode f u) := by
  obtain ⟨h1, h2, h3, rank, h4⟩ := h
  have hr : WFr f rank := ⟨h1, h2, h3, h4⟩
  refine ⟨?_, fun hc => ?_, ?_⟩
  · have := wfr_empty (N := N) (G := G)
    exact ⟨this.1, this.2, this.3, fun _ => 0, this.4⟩
  · have := wfr_addEdge hr u v g hc
    exact ⟨this.1, this.2, this.3,
      fun x => rank x + if (anc f x).contains v then rank u + 1 else 0, this.4⟩
  · have := wfr_removeNode hr u
    exact ⟨this.1, this.2, this.3, _, this.4⟩

section group
variable [Mul G] [One G] [Inv G] [LawfulGroup G]

/-- abstract transform between two frames: inverse world matrix of `a` times world matrix of `b` -/
def T (f : Forest N G) (a b : N) : G := (world f f.parents.length a)⁻¹ * world f f.parents.length b

/-- **path resolution is the product along the unique path**: in any well-formed forest the transform
    returned between two connected frames is `world(a)⁻¹ · world(b)` — the product of the current edge
    matrices on the path, inverted where an edge is walked from child to parent — and frames in
    different trees give an error, never a matrix -/
theorem C09_get_spec (f : Forest N G) (h : WF f) (a b : N) :
    getRaw f a b = if rootOf f a = rootOf f b then some (T f a b) else none := by
  obtain ⟨h1, h2, h3, rank, h4⟩ := h
  exact getRaw_spec (rank := rank) ⟨h1, h2, h3, h4⟩ a b

/-- world matrices are the products of edges from the root: `world(v) = world(parent v) · E(parent v, v)` -/
theorem C09_world_step (f : Forest N G) (h : WF f) (u v : N) (g : G) (he : ((u, v), g) ∈ f.edges) :
    world f f.parents.length v = world f f.parents.length u * g := by
  obtain ⟨h1, h2, h3, rank, h4⟩ := h
  exact world_edge (rank := rank) ⟨h1, h2, h3, h4⟩ he

/-- consequences: identity on the diagonal, composition, inverse -/
theorem C09_laws (f : Forest N G) (a b c : N) :
    T f a a = 1 ∧ T f a c = T f a b * T f b c ∧ T f a b = (T f b a)⁻¹ := by
  unfold T
  exact g_T_laws _ _ _

/-- a changed edge is visible immediately: right after `update(v, u, g)` the transform `u → v` is `g`,
    whatever was stored or queried before -/
theorem C09_update_visible (f : Forest N G) (h : WF f) (u v : N) (g : G) (hne : u ≠ v)
    (hc : NoCycle f u v) : getRaw (addEdge f u v g) u v = some g ∧
      world (addEdge f u v g) (addEdge f u v g).parents.length v
        = world (addEdge f u v g) (addEdge f u v g).parents.length u * g := by
  obtain ⟨h1, h2, h3, rank, h4⟩ := h
  refine ⟨getRaw_addEdge g hne, ?_⟩
  apply world_edge (wfr_addEdge (rank := rank) ⟨h1, h2, h3, h4⟩ u v g hc)
  rw [addEdge_eq]
  exact List.mem_cons_self ..

/-- removing a node disconnects it: no transform to any other frame remains -/
theorem C09_removed_disconnected (f : Forest N G) (h : WF f) (u w : N) (hne : u ≠ w) :
    getRaw (removeNode f u) u w = none ∨ ¬ hasNode f u = true := by
  by_cases hn : hasNode f u = true
  · exact Or.inl (getRaw_removeNode hne hn)
  · exact Or.inr hn

variable [DecidableEq G]

/-- the unrestricted statement: after *any* history the cached query equals the cache-free resolution.
    It is FALSE when an `update` closes a cycle of length ≥ 4 (the code does not prevent that; the
    reversed cached path is then not the path the fresh walk finds) — see `C09_cycle_witness`.
    The property quantifies over forests, so the theorem below carries `Safe`. -/
def C09_cached_full (N G : Type) [DecidableEq N] [Mul G] [One G] [Inv G] [DecidableEq G] : Prop :=
  ∀ (t : InvalTable), t.ok = true → ∀ (base : N) (ops : List (Op N G)) (a b : N),
    (doGet (run t (Graph.init base) ops) a b).1 = getRaw (run t (Graph.init base) ops).forest a b

/-- **the caches never serve a stale answer**: with the invalidation protocol the source implements
    (`InvalTable.ok`), after *any* history of operations in which no update closes a cycle (`Safe`) —
    updates, re-parentings, overwrites, removals, base-frame changes, `clear`, and earlier queries that
    filled the path cache, the hash memo and the transform cache — a query returns exactly what the
    cache-free resolution returns on the current forest -/
theorem C09_cached_get_eq_raw (t : InvalTable) (ht : t.ok = true) (base : N) (ops : List (Op N G))
    (hs : Safe t (Graph.init base) ops) (a b : N) :
    (doGet (run t (Graph.init base) ops) a b).1 = getRaw (run t (Graph.init base) ops).forest a b :=
  cached_get_eq_raw_of_safe t ht base ops hs a b

end group

/-- (G) the invalidation table extracted from `/repo/trimesh/scene/transforms.py` on this run
    satisfies the protocol the theorem above needs -/
theorem C09_table_ok : TV.Generated.c09Table.ok = true := by decide

/-! ### witness: without the hash reset in `add_edge` a query after an update is stale -/

/-- the additive group of integers as a toy matrix group -/
structure Z where
  v : Int
  deriving DecidableEq, Repr
instance : Mul Z := ⟨fun a b => ⟨a.v + b.v⟩⟩
instance : One Z := ⟨⟨0⟩⟩
instance : Inv Z := ⟨fun a => ⟨-a.v⟩⟩

def badTable : InvalTable :=
  { addEdgeResetsHash := false, addEdgeClearsPathsOnNewEdge := true, removeNodeResetsHash := true,
    removeNodeClearsPaths := true, clearClearsCache := true }

def staleOps : List (Op Nat Z) := [.update 1 0 ⟨5⟩, .get 1 0, .update 1 0 ⟨7⟩]

theorem C09_stale_without_hash_reset :
    (doGet (run badTable (Graph.init 0) staleOps) 0 1).1 = some ⟨5⟩ ∧
    getRaw (run badTable (Graph.init 0) staleOps).forest 0 1 = some ⟨7⟩ := by
  decide

/-! ### counterexample (checked): `C09_cached_get_eq_raw` is FALSE as stated

`update` performs no cycle check, so a history can close a cycle in `parents`; on a 4-cycle
`pathTo f 0 2` and the reverse of the cached `pathTo f 2 0` are different paths with different
products.  The theorem holds for histories that keep the forest acyclic (examples below). -/
example : LawfulGroup Z :=
  ⟨fun ⟨x⟩ ⟨y⟩ ⟨z⟩ => by show Z.mk (x + y + z) = Z.mk (x + (y + z)); rw [Int.add_assoc],
   fun ⟨x⟩ => by show Z.mk (0 + x) = Z.mk x; rw [Int.zero_add],
   fun ⟨x⟩ => by show Z.mk (x + 0) = Z.mk x; rw [Int.add_zero],
   fun ⟨x⟩ => by show Z.mk (-x + x) = Z.mk 0; rw [Int.add_left_neg],
   fun ⟨x⟩ => by show Z.mk (x + -x) = Z.mk 0; rw [Int.add_right_neg]⟩

def cycleOps : List (Op Nat Z) :=
  [.update 0 1 ⟨1⟩, .update 1 2 ⟨10⟩, .update 2 3 ⟨100⟩, .update 3 0 ⟨1000⟩, .get 0 2]

/-- on a 4-cycle of frames the cached and the cache-free answers differ (outside the property's
    domain: the frames do not form a forest) -/
theorem C09_cycle_witness :
    (⟨true, true, true, true, true⟩ : InvalTable).ok = true ∧
    (doGet (run ⟨true, true, true, true, true⟩ (Graph.init 0) cycleOps) 0 2).1 = some ⟨-11⟩ ∧
    getRaw (run ⟨true, true, true, true, true⟩ (Graph.init 0) cycleOps).forest 0 2 = some ⟨1100⟩ := by
  decide

/-- the statement is provable when the forest is well formed after every operation -/
example {N G : Type} [DecidableEq N] [Mul G] [One G] [Inv G] [LawfulGroup G] [DecidableEq G]
    (t : InvalTable) (ht : t.ok = true) (base : N) (ops : List (Op N G))
    (hwf : ∀ k, WF (run t (Graph.init base) (ops.take k)).forest) (a b : N) :
    (doGet (run t (Graph.init base) ops) a b).1 = getRaw (run t (Graph.init base) ops).forest a b :=
  cached_get_eq_raw_of_acyclic t ht base ops (fun k => (hwf k).acyclic) a b

/-! non-vacuity (tests, labelled as such): a three-level forest with a re-parenting -/
def demoOps : List (Op Nat Z) :=
  [.update 1 0 ⟨1⟩, .update 2 0 ⟨10⟩, .update 3 1 ⟨100⟩, .get 3 0, .update 3 2 ⟨1000⟩]
example :
    (doGet (run TV.Generated.c09Table (Graph.init 0) demoOps) 0 3).1 = some ⟨1010⟩ ∧
    (doGet (run TV.Generated.c09Table (Graph.init 0) demoOps) 1 3).1 = some ⟨1009⟩ := by decide

section edgelist
variable [Mul G] [One G] [Inv G]

/-- **the edge list export rebuilds an equivalent graph**: load `to_edgelist()` of any well-formed forest into a
    fresh graph with `from_edgelist` (one `update(child, parent, matrix)` per entry, in export order): the
    rebuilt graph resolves every pair of frames to the same transform, or to the same "no path" error, as the
    original - whatever history of updates, re-parentings and removals produced the original -/
theorem C09_edgelist_roundtrip (f : Forest N G) (h : WF f) (a b : N) :
    getRaw (fromEdgelist (toEdgelist f)) a b = getRaw f a b :=
  edgelist_roundtrip ⟨h.parents_nodup, h.edges_nodup, h.consistent⟩ a b

/-- the rebuilt graph holds exactly the exported edges (in reverse dictionary order) and one parent entry per edge -/
theorem C09_edgelist_rebuilt (f : Forest N G) (h : WF f) :
    (fromEdgelist (toEdgelist f)).edges = f.edges.reverse ∧
    (fromEdgelist (toEdgelist f)).parents = f.edges.reverse.map (fun e => (e.1.2, e.1.1)) :=
  fromEdgelist_eq ⟨h.parents_nodup, h.edges_nodup, h.consistent⟩

end edgelist

/-- non-vacuity: a forest built by updates and one re-parenting is rebuilt from its edge list with the same
    edges and the same parents -/
example :
    let f : Forest Nat Int := addEdge (addEdge (addEdge (addEdge Forest.empty 0 1 5) 1 2 7) 0 3 2) 3 2 9
    (fromEdgelist (toEdgelist f)).edges = f.edges.reverse ∧ parentOf (fromEdgelist (toEdgelist f)) 2 = some 3 ∧
    parentOf f 2 = some 3 ∧ edgeOf f 1 2 = none := by
  decide

end TV.C09
