/-
C10 — Scene-level quantities equal explicit placement of every instance.
Property theorems only; helper lemmas live in Proofs/Scene.lean.
World transforms of nodes are the path products of C09; here: what the scene computes from them.
Over any linearly ordered field (bounds) / any field of characteristic zero (measures).
-/
import TrimeshVerif.Proofs.Scene
import TrimeshVerif.Proofs.GeomRat
namespace TV.C10
open TV.Mat3 TV.Affine TV.Scene

variable {K : Type} [Field K] [LinearOrder K] [IsStrictOrderedRing K]

/-- adding the translation after taking the minimum of the rotated points is the minimum of the placed
    points: the per-node corner computed by `bounds_corners` is the exact corner of the placed copy -/
theorem C10_node_bounds (i : Instance K) (p0 : V3 K) :
    nodeLower i p0 = lower (transformPoint i.L i.t p0) ((placed i)) ∧
    nodeUpper i p0 = upper (transformPoint i.L i.t p0) ((placed i)) := by
  exact ⟨nodeLower_eq i p0, nodeUpper_eq i p0⟩

/-- the lower corner is a lower bound of every point and is attained in every coordinate
    (so `lower` / `upper` are the exact axis-aligned bounds of the point set) -/
theorem C10_lower_is_bound (p : V3 K) (ps : List (V3 K)) :
    ∀ q ∈ p :: ps, (lower p ps).1 ≤ q.1 ∧ (lower p ps).2.1 ≤ q.2.1 ∧ (lower p ps).2.2 ≤ q.2.2 := by
  exact lower_le p ps

theorem C10_lower_attained (p : V3 K) (ps : List (V3 K)) :
    (∃ q ∈ p :: ps, (lower p ps).1 = q.1) ∧ (∃ q ∈ p :: ps, (lower p ps).2.1 = q.2.1) ∧
    (∃ q ∈ p :: ps, (lower p ps).2.2 = q.2.2) := by
  exact ⟨lower_attained_1 p ps, lower_attained_2 p ps, lower_attained_3 p ps⟩

/-- bounds of the union of all placed copies = the minimum over the per-node corners
    (`np.vstack(corners).min(axis=0)`): folding over the concatenation is folding over the parts -/
theorem C10_bounds_union (p : V3 K) (ps qs : List (V3 K)) :
    lower p (ps ++ qs) = vmin (lower p ps) (lower p qs) ∧ upper p (ps ++ qs) = vmax (upper p ps) (upper p qs) := by
  exact ⟨lower_append p ps qs, upper_append p ps qs⟩

/-- uniform scaling: every world placement is multiplied by `s` -/
theorem C10_scaled_uniform (s : K) (i : Instance K) :
    placed (scaledUniform s i) = (placed i).map (smul s) := by
  exact placed_scaledUniform s i

/-- transforming the scene at the base frame moves every placed point through `M` -/
theorem C10_apply_transform (M : M3 K) (m : V3 K) (i : Instance K) :
    placed (transformed M m i) = (placed i).map (transformPoint M m) := by
  exact placed_transformed M m i

/-- instance-weighted volume: an instance placed with linear part `L` contributes `det L` times the
    volume of its geometry per face (so `|det|` after orientation), which is what `Scene.volume` sums
    after the repair; for rigid placements the factor is one -/
theorem C10_instance_volume [CharZero K] (L : M3 K) (t a b c : V3 K) :
    ∃ h : V3 K → V3 K → K, (∀ u v, h u v + h v u = 0) ∧
      vol (transformPoint L t a) (transformPoint L t b) (transformPoint L t c)
        = L.det * vol a b c + (h a b + h b c + h c a) := by
  exact ⟨volEdge L t, volEdge_antisymm L t, vol_transformPoint L t a b c⟩


/-! ### the executable rational model run by the driver (Model/GeomRat.lean) -/
section rat
open TV.GeomRat

/-- what the driver evaluates is the generic definition at ℚ (by `rfl`) -/
theorem C10_rat_model_is_generic (i : InstanceR) (p0 : TV.GeomRat.V) (ps : List TV.GeomRat.V) :
    placedR i = TV.Scene.placed (toInst i) ∧ lowerR p0 ps = TV.Scene.lower p0 ps ∧
    upperR p0 ps = TV.Scene.upper p0 ps ∧ nodeLowerR i p0 = TV.Scene.nodeLower (toInst i) p0 ∧
    nodeUpperR i p0 = TV.Scene.nodeUpper (toInst i) p0 :=
  ⟨placedR_eq i, lowerR_eq p0 ps, upperR_eq p0 ps, nodeLowerR_eq i p0, nodeUpperR_eq i p0⟩

theorem C10_rat_node_bounds (i : InstanceR) (p0 : TV.GeomRat.V) :
    nodeLowerR i p0 = lowerR (transformR i.L i.t p0) (placedR i) ∧
    nodeUpperR i p0 = upperR (transformR i.L i.t p0) (placedR i) :=
  rat_node_bounds i p0

theorem C10_rat_lower_is_bound (p : TV.GeomRat.V) (ps : List TV.GeomRat.V) :
    ∀ q ∈ p :: ps, (lowerR p ps).1 ≤ q.1 ∧ (lowerR p ps).2.1 ≤ q.2.1 ∧ (lowerR p ps).2.2 ≤ q.2.2 :=
  rat_lower_is_bound p ps
end rat

end TV.C10
