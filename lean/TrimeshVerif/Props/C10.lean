/-
C10 — Scene-level quantities equal explicit placement of every instance.
Property theorems only; helper lemmas live in Proofs/Scene.lean.
World transforms of nodes are the path products of C09; here: what the scene computes from them.
Over any linearly ordered field (bounds) / any field of characteristic zero (measures).
-/
import TrimeshVerif.Proofs.Scene
import TrimeshVerif.Proofs.ScenePerAxis
import TrimeshVerif.Proofs.GeomRat
import TrimeshVerif.Proofs.SceneAppend
namespace TV.C10
open TV.Mat3 TV.Affine TV.Scene

variable {K : Type} [Field K] [LinearOrder K] [IsStrictOrderedRing K]

/-- adding the translation after taking the minimum of the rotated points is the minimum of the placed
    points: the per-node corner computed by `bounds_corners` is the exact corner of the placed copy -/
theorem C10_node_bounds (i : Instance K) (p0 : V3 K) :
    nodeLower i p0 = lower (transformPoint i.L i.t p0) ((placed i)) ∧
    nodeUpper i p0 = upper (transformPoint i.L i.t p0) ((placed i)) := by
  exact ⟨nodeLower_eq i p0, nodeUpper_eq i p0⟩

/-- the lower corner is a lower bound of every point and is attained in every coordinate
    (so `lower` / `upper` are the exact axis-aligned bounds of the point set) -/
theorem C10_lower_is_bound (p : V3 K) (ps : List (V3 K)) :
    ∀ q ∈ p :: ps, (lower p ps).1 ≤ q.1 ∧ (lower p ps).2.1 ≤ q.2.1 ∧ (lower p ps).2.2 ≤ q.2.2 := by
  exact lower_le p ps

theorem C10_lower_attained (p : V3 K) (ps : List (V3 K)) :
    (∃ q ∈ p :: ps, (lower p ps).1 = q.1) ∧ (∃ q ∈ p :: ps, (lower p ps).2.1 = q.2.1) ∧
    (∃ q ∈ p :: ps, (lower p ps).2.2 = q.2.2) := by
  exact ⟨lower_attained_1 p ps, lower_attained_2 p ps, lower_attained_3 p ps⟩

/-- bounds of the union of all placed copies = the minimum over the per-node corners
    (`np.vstack(corners).min(axis=0)`): folding over the concatenation is folding over the parts -/
theorem C10_bounds_union (p : V3 K) (ps qs : List (V3 K)) :
    lower p (ps ++ qs) = vmin (lower p ps) (lower p qs) ∧ upper p (ps ++ qs) = vmax (upper p ps) (upper p qs) := by
  exact ⟨lower_append p ps qs, upper_append p ps qs⟩

/-- uniform scaling: every world placement is multiplied by `s` -/
theorem C10_scaled_uniform (s : K) (i : Instance K) :
    placed (scaledUniform s i) = (placed i).map (smul s) := by
  exact placed_scaledUniform s i

/-- **per-axis scaling, partial**: `Scene.scaled([sx, sy, sz])` re-scales every geometry in its node's own frame and
    multiplies every edge translation by `S = diag(s)`.  Along any chain of edges whose linear parts all commute with
    `S` (unrotated frames, rotations about an axis whose other two factors are equal, ...) every placed point moves to
    `S · p`, as the property asks.  The full statement is false for the code (next theorem; recorded finding
    `C10-scaled-per-axis-rotated`). -/
theorem C10_scaled_per_axis_partial (S : M3 K) (es : List (M3 K × V3 K)) (hc : ∀ e ∈ es, S * e.1 = e.1 * S)
    (p p' : V3 K) (hp : (chainWorld es).1.apply p' = S.apply ((chainWorld es).1.apply p)) :
    transformPoint (chainWorld (es.map (scaleEdge S))).1 (chainWorld (es.map (scaleEdge S))).2 p'
      = S.apply (transformPoint (chainWorld es).1 (chainWorld es).2 p) :=
  perAxis_exact S es hc p p' hp

/-- transforming the scene at the base frame moves every placed point through `M` -/
theorem C10_apply_transform (M : M3 K) (m : V3 K) (i : Instance K) :
    placed (transformed M m i) = (placed i).map (transformPoint M m) := by
  exact placed_transformed M m i

/-- instance-weighted volume: an instance placed with linear part `L` contributes `det L` times the
    volume of its geometry per face (so `|det|` after orientation), which is what `Scene.volume` sums
    after the repair; for rigid placements the factor is one -/
theorem C10_instance_volume [CharZero K] (L : M3 K) (t a b c : V3 K) :
    ∃ h : V3 K → V3 K → K, (∀ u v, h u v + h v u = 0) ∧
      vol (transformPoint L t a) (transformPoint L t b) (transformPoint L t c)
        = L.det * vol a b c + (h a b + h b c + h c a) := by
  exact ⟨volEdge L t, volEdge_antisymm L t, vol_transformPoint L t a b c⟩


/-! ### the executable rational model run by the driver (Model/GeomRat.lean) -/
section rat
open TV.GeomRat

/-- what the driver evaluates is the generic definition at ℚ (by `rfl`) -/
theorem C10_rat_model_is_generic (i : InstanceR) (p0 : TV.GeomRat.V) (ps : List TV.GeomRat.V) :
    placedR i = TV.Scene.placed (toInst i) ∧ lowerR p0 ps = TV.Scene.lower p0 ps ∧
    upperR p0 ps = TV.Scene.upper p0 ps ∧ nodeLowerR i p0 = TV.Scene.nodeLower (toInst i) p0 ∧
    nodeUpperR i p0 = TV.Scene.nodeUpper (toInst i) p0 :=
  ⟨placedR_eq i, lowerR_eq p0 ps, upperR_eq p0 ps, nodeLowerR_eq i p0, nodeUpperR_eq i p0⟩

theorem C10_rat_node_bounds (i : InstanceR) (p0 : TV.GeomRat.V) :
    nodeLowerR i p0 = lowerR (transformR i.L i.t p0) (placedR i) ∧
    nodeUpperR i p0 = upperR (transformR i.L i.t p0) (placedR i) :=
  rat_node_bounds i p0

theorem C10_rat_lower_is_bound (p : TV.GeomRat.V) (ps : List TV.GeomRat.V) :
    ∀ q ∈ p :: ps, (lowerR p ps).1 ≤ q.1 ∧ (lowerR p ps).2.1 ≤ q.2.1 ∧ (lowerR p ps).2.2 ≤ q.2.2 :=
  rat_lower_is_bound p ps
end rat


/-! ### append_scenes: node renaming -/

section append
open TV.SceneAppend
variable {α : Type} [DecidableEq α]

/-- **appending never merges nodes of different scenes**: whatever the scenes, the `common` nodes and the names in
    use before, if the identifiers drawn are new (`gen` injective, never a node name of a scene, never a name already
    in use) then the renamed node names of two different scenes meet only in `common`, and no renamed name collides
    with a name in use before unless it is common -/
theorem C10_append_no_merge (gen : Nat → α) (hgen : ∀ a b, gen a = gen b → a = b) (common : List α)
    (ss : List (List α)) (consumed : List α) (ctr : Nat)
    (h1 : ∀ c, ctr ≤ c → gen c ∉ consumed) (h2 : ∀ c, ∀ s ∈ ss, gen c ∉ s) :
    (∀ A ∈ appendAll gen common consumed ctr ss, ∀ x ∈ A, x ∈ consumed → x ∈ common) ∧
    (appendAll gen common consumed ctr ss).Pairwise (fun A B => ∀ x ∈ A, x ∈ B → x ∈ common) :=
  appendAll_disjoint gen hgen common ss consumed ctr h1 h2

/-- **inside one scene the renaming is a one-to-one function of the node name**: two occurrences get the same new
    name exactly when they are the same node (so the appended copy of the scene has the same graph) -/
theorem C10_append_scene_injective (gen : Nat → α) (hgen : ∀ a b, gen a = gen b → a = b) (common consumed : List α)
    (ctr : Nat) (ns : List α) (hnames : ∀ c, gen c ∉ ns) (i j : Nat) (n n' o o' : α)
    (hi : ns[i]? = some n) (hj : ns[j]? = some n')
    (ho : (remapAll gen common consumed ⟨[], [], ctr⟩ ns).2[i]? = some o)
    (ho' : (remapAll gen common consumed ⟨[], [], ctr⟩ ns).2[j]? = some o') :
    o = o' ↔ n = n' :=
  scene_injective gen hgen common consumed ctr ns hnames i j n n' o o' hi hj ho ho'

/-- non-vacuity: three scenes that all use the node names 1 and 2 under the common frame 0 -/
example : appendAll (fun k => 100 + k) [0] [] 0 [[0, 1, 1, 2], [0, 1, 1, 2], [0, 1, 1, 2]] =
    [[0, 1, 1, 2], [0, 100, 100, 101], [0, 102, 102, 103]] := by decide

end append

/-- **witness that the commutation hypothesis is needed** (the behaviour of the code, reproduced on the
    implementation): a node one unit along `x` below a frame turned by a quarter turn about `z`, scaled by
    `diag(1, 2, 3)`: the origin of the node is placed at `(0, 1, 0)` before and after, not at `(0, 2, 0)` -/
theorem C10_scaled_per_axis_witness :
    let S : M3 Rat := ⟨1, 0, 0, 0, 2, 0, 0, 0, 3⟩
    let es : List (M3 Rat × V3 Rat) := [(Rz 0 1, (0, 0, 0)), (1, (1, 0, 0))]
    transformPoint (chainWorld (es.map (scaleEdge S))).1 (chainWorld (es.map (scaleEdge S))).2 (0, 0, 0) = (0, 1, 0) ∧
    S.apply (transformPoint (chainWorld es).1 (chainWorld es).2 (0, 0, 0)) = (0, 2, 0) := by
  have e : ∀ X Y : M3 Rat, X * Y = M3.mul X Y := fun _ _ => rfl
  have o : (1 : M3 Rat) = M3.one := rfl
  constructor <;>
    simp [chainWorld, scaleEdge, transformPoint, M3.apply, add, Rz, e, o, M3.mul, M3.one]

end TV.C10
