/-
C11 — Plane sections lie on plane and surface; slices partition the solid.
Property theorems only; helper lemmas live in Proofs/Slice.lean.
-/
import TrimeshVerif.Proofs.Slice
import TrimeshVerif.Proofs.SliceRat
import TrimeshVerif.Proofs.SlicePieces
import TrimeshVerif.Proofs.SectionLoops
import TrimeshVerif.Generated.C11Table
namespace TV.C11
open TV.Mat3 TV.Affine TV.Remesh TV.Slice

/-- **the sign coding classifies all 27 patterns correctly**: `basic` ⇔ no corner on the plane and the
    corners are not all on one side; `one_vertex` ⇔ exactly one corner on the plane and the other two on
    opposite sides; `one_edge` ⇔ exactly two corners on the plane and the third on the positive side
    (so an edge lying in the plane is reported once, by the face above it); otherwise no segment -/
theorem C11_cases :
    allTriples.all (fun t =>
      let a := t.1; let b := t.2.1; let c := t.2.2
      (isBasic a b c == (zeros a b c == 0 && !(a == b && b == c))) &&
      (isOneVertex a b c == (zeros a b c == 1 && a + b + c == 0)) &&
      (isOneEdge a b c == (zeros a b c == 2 && a + b + c == 1)) &&
      -- the three cases are mutually exclusive
      !((isBasic a b c && isOneVertex a b c) || (isBasic a b c && isOneEdge a b c) ||
        (isOneVertex a b c && isOneEdge a b c))) = true := by
  decide

/-- **the slice classification of `slice_faces_plane` is right for all 27 patterns** (sign +1 = negative
    side there): a triangle is cut ⇔ it has corners strictly on both sides; it is kept whole ⇔ no corner is
    on the negative side; a cut triangle leaves a quad ⇔ two corners are on the positive side and a triangle
    otherwise; kept, cut and dropped are exclusive; a triangle is kept by one of the two opposite slices
    (signs negated) unless it is cut by both or lies in the plane -/
theorem C11_slice_cases :
    allTriples.all (fun t =>
      let a := t.1; let b := t.2.1; let c := t.2.2
      let neg := [a, b, c].count 1; let pos := [a, b, c].count (-1)
      (onEdge a b c == (decide (0 < neg) && decide (0 < pos))) &&
      (inside a b c == (neg == 0)) &&
      (cutQuad a b c == (onEdge a b c && pos == 2)) &&
      (cutTri a b c == (onEdge a b c && pos == 1)) &&
      !(inside a b c && onEdge a b c) &&
      (onEdge a b c == onEdge (-a) (-b) (-c)) &&
      -- a face not cut and not in the plane goes to exactly one side
      (onEdge a b c || zeros a b c == 3 || (inside a b c != inside (-a) (-b) (-c))) &&
      -- the pieces of a cut face: quad on one side <-> triangle on the other, unless a corner is on the plane
      (!(onEdge a b c) || zeros a b c == 1 || (cutQuad a b c == cutTri (-a) (-b) (-c)))) = true := by
  decide

section field
variable {K : Type} [Field K] [LinearOrder K] [IsStrictOrderedRing K]

/-- **every returned endpoint lies on the plane and on a mesh edge**: for an edge whose ends are strictly on
    opposite sides, the crossing point satisfies `n · (p − o) = 0` and is `a + t (b − a)` with `0 < t < 1` -/
theorem C11_on_plane_on_edge (n o a b : V3 K) (ha : 0 < sdist n o a) (hb : sdist n o b < 0) :
    sdist n o (edgePoint n o a b) = 0 ∧ 0 < edgeParam n o a b ∧ edgeParam n o a b < 1 := by
  have hp := edgeParam_pos_lt_one n o a b ha hb
  exact ⟨sdist_edgePoint n o a b (by linarith), hp.1, hp.2⟩

/-- the same with the roles of the two sides exchanged -/
theorem C11_on_plane_on_edge' (n o a b : V3 K) (ha : sdist n o a < 0) (hb : 0 < sdist n o b) :
    sdist n o (edgePoint n o a b) = 0 ∧ 0 < edgeParam n o a b ∧ edgeParam n o a b < 1 := by
  have hp := edgeParam_pos_lt_one' n o a b ha hb
  exact ⟨sdist_edgePoint n o a b (by linarith), hp.1, hp.2⟩

/-- points of a segment inherit the side of its ends: a piece cut off between corner `a` (non-negative side)
    and crossing points stays in the closed positive half space -/
theorem C11_lerp_side (n o a b : V3 K) (s : K) (hs0 : 0 ≤ s) (hs1 : s ≤ 1)
    (ha : 0 ≤ sdist n o a) (hb : 0 ≤ sdist n o b) : 0 ≤ sdist n o (lerp a b s) := by
  exact sdist_lerp_nonneg n o a b s hs0 hs1 ha hb

/-- **slices partition the triangle**: cutting triangle (a, b, c) at a point `p` of edge ab and a point `q`
    of edge ac gives the corner piece (a, p, q) and the quad (p, b, c, q) = (p, b, c) + (p, c, q); their area
    vectors add up to the triangle's, so the areas of the two opposite slices add up to the original area -/
theorem C11_slice_partition (a b c : V3 K) (s u : K) :
    let p := lerp a b s; let q := lerp a c u
    add (areaVec (a, p, q)) (add (areaVec (p, b, c)) (areaVec (p, c, q))) = areaVec (a, b, c) := by
  exact areaVec_partition a b c s u

/-- the pieces are coplanar with the triangle and keep its orientation when `0 ≤ s, u ≤ 1`:
    each piece's area vector is a non-negative multiple of the triangle's -/
theorem C11_pieces_oriented (a b c : V3 K) (s u : K) :
    let p := lerp a b s; let q := lerp a c u
    areaVec (a, p, q) = smul (s * u) (areaVec (a, b, c)) ∧
    areaVec (p, b, c) = smul (1 - s) (areaVec (a, b, c)) ∧
    areaVec (p, c, q) = smul (s * (1 - u)) (areaVec (a, b, c)) := by
  exact ⟨areaVec_corner a b c s u, areaVec_quad1 a b c s, areaVec_quad2 a b c s u⟩

/-- volumes of the two capped halves add up: with the same split, the signed-tetrahedron volumes of the
    pieces add up to the triangle's (the two caps are the same polygon with opposite orientation and
    cancel), so `V₊ + V₋ = V` -/
theorem C11_slice_volume [CharZero K] (a b c : V3 K) (s u : K) :
    let p := lerp a b s; let q := lerp a c u
    vol a p q + (vol p b c + vol p c q) = vol a b c := by
  exact vol_partition a b c s u

/-- parallel planes reuse the dot products: for a unit normal, the distance to the plane shifted by `h`
    along the normal is the cached distance minus `h` (`mesh_multiplane`) -/
theorem C11_shifted_plane (n o p : V3 K) (h : K) (hn : dot n n = 1) :
    sdist n (add o (smul h n)) p = sdist n o p - h := by
  rw [sdist_shift, hn, mul_one]

end field
/-! ### the executable rational model of the per-triangle handlers (Model/Slice.lean, run by the driver on
    every face of every section case and compared with `mesh_plane`) -/

/-- **every endpoint `mesh_plane` emits lies on the plane** up to the tolerance band used for the signs
    (exactly on it for crossing points), for every triangle, plane and tolerance -/
theorem C11_rat_section_on_plane (tol : Rat) (htol : 0 ≤ tol) (n o : TV.Slice.V) (t : TV.Slice.Tri)
    (p q : TV.Slice.V) (h : sectionTri tol n o t = some (p, q)) :
    absR (sdistR n o p) ≤ tol ∧ absR (sdistR n o q) ≤ tol :=
  section_on_plane tol htol n o t p q h

/-- **and on the mesh surface**: it is a corner of the triangle or a point of one of its edges -/
theorem C11_rat_section_on_triangle (tol : Rat) (htol : 0 ≤ tol) (n o : TV.Slice.V) (t : TV.Slice.Tri)
    (p q : TV.Slice.V) (h : sectionTri tol n o t = some (p, q)) :
    ∀ x ∈ [p, q], ∃ (u v : TV.Slice.V) (s : Rat), u ∈ [t.1, t.2.1, t.2.2] ∧ v ∈ [t.1, t.2.1, t.2.2] ∧
      0 ≤ s ∧ s ≤ 1 ∧ x = TV.Slice.addV u (TV.Slice.smulV s (TV.Slice.subV v u)) :=
  section_on_triangle tol htol n o t p q h

/-- a triangle strictly on one side of the plane contributes no segment -/
theorem C11_rat_section_none (tol : Rat) (htol : 0 ≤ tol) (n o : TV.Slice.V) (t : TV.Slice.Tri)
    (h : (tol < sdistR n o t.1 ∧ tol < sdistR n o t.2.1 ∧ tol < sdistR n o t.2.2) ∨
         (sdistR n o t.1 < -tol ∧ sdistR n o t.2.1 < -tol ∧ sdistR n o t.2.2 < -tol)) :
    sectionTri tol n o t = none :=
  section_none_one_side tol n o t h htol

/-- **slicing returns only the part on the positive side**: every corner of every piece `slice_faces_plane`
    keeps of a triangle is at most `tol` below the plane -/
theorem C11_rat_slice_positive (tol : Rat) (htol : 0 ≤ tol) (n o : TV.Slice.V) (t : TV.Slice.Tri) :
    ∀ piece ∈ keptTris t (sliceTri tol n o t), ∀ x ∈ corners piece, -tol ≤ sdistR n o x :=
  slice_kept_positive tol htol n o t

/-- a triangle that is dropped has no corner strictly above the band -/
theorem C11_rat_slice_dropped (tol : Rat) (htol : 0 ≤ tol) (n o : TV.Slice.V) (t : TV.Slice.Tri)
    (h : sliceTri tol n o t = .dropped) : ∀ x ∈ corners t, sdistR n o x ≤ tol :=
  slice_dropped_negative tol htol n o t h

/-- **the two opposite slices partition the triangle** (general position): the area vectors of the pieces
    kept for `n` and for `-n` add up to the triangle's, so the areas of the two slices add up to the area -/
theorem C11_rat_slice_partition (tol : Rat) (htol : 0 ≤ tol) (n o : TV.Slice.V) (t : TV.Slice.Tri)
    (hgen : ∀ x ∈ corners t, tol < sdistR n o x ∨ sdistR n o x < -tol) :
    TV.Slice.addV (sumV ((keptTris t (sliceTri tol n o t)).map TV.Slice.areaVecR))
         (sumV ((keptTris t (sliceTri tol (negV n) o t)).map TV.Slice.areaVecR)) = TV.Slice.areaVecR t :=
  slice_partition tol htol n o t hgen

/-- every kept piece lies in the triangle's plane with the triangle's winding and no more than its area -/
theorem C11_rat_slice_oriented (tol : Rat) (htol : 0 ≤ tol) (n o : TV.Slice.V) (t : TV.Slice.Tri)
    (hgen : ∀ x ∈ corners t, tol < sdistR n o x ∨ sdistR n o x < -tol) :
    ∀ piece ∈ keptTris t (sliceTri tol n o t), ∃ k : Rat, 0 ≤ k ∧ k ≤ 1 ∧
      TV.Slice.areaVecR piece = TV.Slice.smulV k (TV.Slice.areaVecR t) :=
  slice_pieces_oriented tol htol n o t hgen



/-! ### (G) the case table of the source -/

/-- the code of a sign triple computed with the constants recovered from the source -/
def codedGen (a b c : Int) : Int :=
  let s := sort3 a b c
  TV.Generated.C11.codeBase + s.1 * 2 ^ (TV.Generated.C11.shifts.getD 0 0) + s.2.1 * 2 ^ (TV.Generated.C11.shifts.getD 1 0)
    + s.2.2 * 2 ^ (TV.Generated.C11.shifts.getD 2 0)

/-- (G) **the case table of `triangle_cases` in the current source is the one the theorems are about**: for all 27
    sign patterns the code is a valid index of the lookup array, and the codes the source switches on for `basic`,
    `one_vertex`, `one_edge` select exactly the patterns the model's `isBasic`, `isOneVertex`, `isOneEdge` select -/
theorem C11_case_table_of_source :
    allTriples.all (fun t =>
      let a := t.1; let b := t.2.1; let c := t.2.2
      decide (0 ≤ codedGen a b c) && decide (codedGen a b c < TV.Generated.C11.keyLen) &&
      (TV.Generated.C11.basicKeys.contains (codedGen a b c) == isBasic a b c) &&
      (TV.Generated.C11.oneVertexKeys.contains (codedGen a b c) == isOneVertex a b c) &&
      (TV.Generated.C11.oneEdgeKeys.contains (codedGen a b c) == isOneEdge a b c)) = true := by decide

/-! ### the whole section: closed loops -/

section loops
open TV.Topology TV.SectionLoops

/-- **a section of a closed surface in general position consists of closed loops**: give every vertex the
    sign of its side of the plane (no vertex on the plane).  Then every triangle is crossed in none or exactly
    two of its edges (it contributes no segment or one, joining those two edges; the triangles with two are
    the ones the code's case table calls `basic`), and when every undirected edge lies in exactly two faces
    every crossed edge is the end of exactly two segments - so following segments from edge to edge never
    ends: the section is a disjoint union of closed polygons -/
theorem C11_section_closed_loops (sgn : Nat → Int) (fs : List TV.Topology.Face) :
    (∀ f ∈ fs, sgn f.1 ≠ 0 → sgn f.2.1 ≠ 0 → sgn f.2.2 ≠ 0 →
        (segEdges sgn f).length = 0 ∨ (segEdges sgn f).length = 2) ∧
    ((∀ e ∈ edgesSorted fs, (edgesSorted fs).count e = 2) →
        ∀ e ∈ edgesSorted fs, (allSegEnds sgn fs).count e = if crossing sgn e then 2 else 0) :=
  ⟨fun f _ h1 h2 h3 => segEdges_length sgn f h1 h2 h3, fun hc e he => seg_ends_twice sgn fs hc e he⟩

/-- the triangles with a segment are the ones `mesh_plane`'s case table routes to its `basic` handler -/
theorem C11_basic_iff_two_crossed (sgn : Nat → Int) (f : TV.Topology.Face)
    (h1 : sgn f.1 = 1 ∨ sgn f.1 = -1) (h2 : sgn f.2.1 = 1 ∨ sgn f.2.1 = -1) (h3 : sgn f.2.2 = 1 ∨ sgn f.2.2 = -1) :
    TV.Slice.isBasic (sgn f.1) (sgn f.2.1) (sgn f.2.2) = true ↔ (segEdges sgn f).length = 2 :=
  isBasic_iff_two sgn f h1 h2 h3

/-- non-vacuity: a tetrahedron cut between vertex 0 and the other three: three crossed edges, three
    segments, every crossed edge an end of two of them -/
example :
    let fs : List TV.Topology.Face := [(0, 2, 1), (0, 1, 3), (1, 2, 3), (0, 3, 2)]
    let sgn : Nat → Int := fun v => if v = 0 then 1 else -1
    (∀ e ∈ edgesSorted fs, (edgesSorted fs).count e = 2) ∧
    allSegEnds sgn fs = [(0, 2), (0, 1), (0, 1), (0, 3), (0, 3), (0, 2)] := by decide

end loops

end TV.C11
