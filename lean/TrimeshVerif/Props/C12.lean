/-
C12 — Accelerated ray and proximity queries equal exhaustive evaluation.
Property theorems about the exhaustive rational model the accelerated implementations are compared with:
what the model returns is what testing every triangle returns, by these theorems, for every rational
(hence every float64) input.  Helper lemmas live in Proofs/Query.lean.
-/
import TrimeshVerif.Proofs.Query
namespace TV.C12
open TV.Query

/-- **a reported hit lies on the ray ahead of its origin and on the reported triangle** -/
theorem C12_hit_sound (o d : P) (t : Tri) (s u v : Rat) (h : rayTriangle o d t = some (s, u, v)) :
    0 < s ∧ 0 ≤ u ∧ 0 ≤ v ∧ u + v ≤ 1 ∧ add o (smul s d) = fromBary t (u, v) := by
  exact rayTriangle_sound o d t s u v h

/-- **no crossed triangle is missed**: if the ray meets the (non-degenerate, non-parallel) triangle at a
    point ahead of the origin, the model reports it, with that parameter -/
theorem C12_hit_complete (o d : P) (t : Tri) (s u v : Rat) (hs : 0 < s) (hu : 0 ≤ u) (hv : 0 ≤ v) (huv : u + v ≤ 1)
    (hp : add o (smul s d) = fromBary t (u, v))
    (hnd : dot (cross (sub t.2.1 t.1) (sub t.2.2 t.1)) d ≠ 0) :
    ∃ u' v', rayTriangle o d t = some (s, u', v') := by
  exact ⟨u, v, rayTriangle_complete o d t s u v hs hu hv huv hp hnd⟩

/-- every entry of the hit list is a sound hit of that triangle, in triangle order -/
theorem C12_hits_sound (o d : P) (ts : List Tri) (i : Nat) (s : Rat) (h : (i, s) ∈ rayHits o d ts) :
    ∃ t u v, ts[i]? = some t ∧ rayTriangle o d t = some (s, u, v) := by
  exact (mem_rayHits_iff o d ts i s).1 h

/-- the first hit is a hit and no hit is nearer -/
theorem C12_first_hit (o d : P) (ts : List Tri) (i : Nat) (s : Rat) (h : firstHit o d ts = some (i, s)) :
    (i, s) ∈ rayHits o d ts ∧ ∀ h' ∈ rayHits o d ts, s ≤ h'.2 := by
  exact firstHit_spec o d ts i s h

/-- **the closest-point cascade returns a point of the triangle**: its barycentric weights are
    non-negative and sum to at most one (for every non-degenerate triangle) -/
theorem C12_closest_in_triangle (p : P) (t : Tri)
    (hnd : dot (cross (sub t.2.1 t.1) (sub t.2.2 t.1)) (cross (sub t.2.1 t.1) (sub t.2.2 t.1)) ≠ 0) :
    0 ≤ (closestBary p t).1 ∧ 0 ≤ (closestBary p t).2 ∧ (closestBary p t).1 + (closestBary p t).2 ≤ 1 := by
  exact closestBary_in p t hnd

/-- **and it is the nearest one**: no point of the triangle is closer to `p` -/
theorem C12_closest_optimal (p : P) (t : Tri) (s u : Rat) (hs : 0 ≤ s) (hu : 0 ≤ u) (hsu : s + u ≤ 1)
    (hnd : dot (cross (sub t.2.1 t.1) (sub t.2.2 t.1)) (cross (sub t.2.1 t.1) (sub t.2.2 t.1)) ≠ 0) :
    dist2 p (closestPointTri p t) ≤ dist2 p (fromBary t (s, u)) := by
  exact closestPointTri_optimal p t s u hs hu hsu hnd

/-- the mesh query is the minimum over all triangles -/
theorem C12_closest_on_mesh (p : P) (ts : List Tri) (i : Nat) (q : P) (d : Rat)
    (h : closestOnMesh p ts = some (i, q, d)) :
    (∃ t, ts[i]? = some t ∧ q = closestPointTri p t ∧ d = dist2 p q) ∧
    ∀ t ∈ ts, d ≤ dist2 p (closestPointTri p t) := by
  exact closestOnMesh_spec p ts i q d h

end TV.C12
