/-
C12 — Accelerated ray and proximity queries equal exhaustive evaluation.
Property theorems about the exhaustive rational model the accelerated implementations are compared with:
what the model returns is what testing every triangle returns, by these theorems, for every rational
(hence every float64) input.  Helper lemmas live in Proofs/Query.lean.
-/
import TrimeshVerif.Proofs.Query
import TrimeshVerif.Proofs.QueryPrune
import TrimeshVerif.Generated.C12Bary
namespace TV.C12
open TV.Query

/-- **a reported hit lies on the ray ahead of its origin and on the reported triangle** -/
theorem C12_hit_sound (o d : P) (t : Tri) (s u v : Rat) (h : rayTriangle o d t = some (s, u, v)) :
    0 < s ∧ 0 ≤ u ∧ 0 ≤ v ∧ u + v ≤ 1 ∧ add o (smul s d) = fromBary t (u, v) := by
  exact rayTriangle_sound o d t s u v h

/-- **no crossed triangle is missed**: if the ray meets the (non-degenerate, non-parallel) triangle at a
    point ahead of the origin, the model reports it, with that parameter -/
theorem C12_hit_complete (o d : P) (t : Tri) (s u v : Rat) (hs : 0 < s) (hu : 0 ≤ u) (hv : 0 ≤ v) (huv : u + v ≤ 1)
    (hp : add o (smul s d) = fromBary t (u, v))
    (hnd : dot (cross (sub t.2.1 t.1) (sub t.2.2 t.1)) d ≠ 0) :
    ∃ u' v', rayTriangle o d t = some (s, u', v') := by
  exact ⟨u, v, rayTriangle_complete o d t s u v hs hu hv huv hp hnd⟩

/-- every entry of the hit list is a sound hit of that triangle, in triangle order -/
theorem C12_hits_sound (o d : P) (ts : List Tri) (i : Nat) (s : Rat) (h : (i, s) ∈ rayHits o d ts) :
    ∃ t u v, ts[i]? = some t ∧ rayTriangle o d t = some (s, u, v) := by
  exact (mem_rayHits_iff o d ts i s).1 h

/-- the first hit is a hit and no hit is nearer -/
theorem C12_first_hit (o d : P) (ts : List Tri) (i : Nat) (s : Rat) (h : firstHit o d ts = some (i, s)) :
    (i, s) ∈ rayHits o d ts ∧ ∀ h' ∈ rayHits o d ts, s ≤ h'.2 := by
  exact firstHit_spec o d ts i s h

/-- **the closest-point cascade returns a point of the triangle**: its barycentric weights are
    non-negative and sum to at most one (for every non-degenerate triangle) -/
theorem C12_closest_in_triangle (p : P) (t : Tri)
    (hnd : dot (cross (sub t.2.1 t.1) (sub t.2.2 t.1)) (cross (sub t.2.1 t.1) (sub t.2.2 t.1)) ≠ 0) :
    0 ≤ (closestBary p t).1 ∧ 0 ≤ (closestBary p t).2 ∧ (closestBary p t).1 + (closestBary p t).2 ≤ 1 := by
  exact closestBary_in p t hnd

/-- **and it is the nearest one**: no point of the triangle is closer to `p` -/
theorem C12_closest_optimal (p : P) (t : Tri) (s u : Rat) (hs : 0 ≤ s) (hu : 0 ≤ u) (hsu : s + u ≤ 1)
    (hnd : dot (cross (sub t.2.1 t.1) (sub t.2.2 t.1)) (cross (sub t.2.1 t.1) (sub t.2.2 t.1)) ≠ 0) :
    dist2 p (closestPointTri p t) ≤ dist2 p (fromBary t (s, u)) := by
  exact closestPointTri_optimal p t s u hs hu hsu hnd

/-- the mesh query is the minimum over all triangles -/
theorem C12_closest_on_mesh (p : P) (ts : List Tri) (i : Nat) (q : P) (d : Rat)
    (h : closestOnMesh p ts = some (i, q, d)) :
    (∃ t, ts[i]? = some t ∧ q = closestPointTri p t ∧ d = dist2 p q) ∧
    ∀ t ∈ ts, d ≤ dist2 p (closestPointTri p t) := by
  exact closestOnMesh_spec p ts i q d h

/-! ### the accelerated part: pruning with boxes loses nothing -/

/-- **`ray_bounds` is complete**: every point `o + t·d`, `t ≥ 0`, of a ray whose coordinate along the
    dominant axis of `d` lies within the tree bounds is inside the box `ray_bounds` returns — for every
    origin, every direction with components at most 1 in magnitude (unit vectors), every non-negative
    buffer, whatever the clamping of the two plane parameters did -/
theorem C12_ray_bounds_complete (o d : P) (tb : Box) (buf t : Rat) (hb : 0 ≤ buf) (ht : 0 ≤ t)
    (hd : SubUnit d) (hne : d ≠ (0, 0, 0))
    (hlo : get tb.1 (argmaxAbs d) ≤ get (add o (smul t d)) (argmaxAbs d))
    (hhi : get (add o (smul t d)) (argmaxAbs d) ≤ get tb.2 (argmaxAbs d)) :
    inBox (add o (smul t d)) (rayBounds o d tb buf) :=
  rayBounds_complete o d tb buf t hb ht hd hne hlo hhi

/-- **a triangle that is hit is among the r-tree candidates** (its box meets the ray's box) -/
theorem C12_hit_is_candidate (o d : P) (ts : List Tri) (buf : Rat) (hb : 0 ≤ buf) (hd : SubUnit d)
    (t : Tri) (ht : t ∈ ts) (s u v : Rat) (h : rayTriangle o d t = some (s, u, v)) :
    boxesMeet (rayBounds o d (treeBounds ts) buf) (triBox t) = true :=
  hit_is_candidate o d ts buf hb hd t ht s u v h

/-- **accelerated = exhaustive for rays**: the narrow phase run on the candidates only returns exactly
    the hits of testing every triangle, in the same order (any mesh, any origin, any unit direction) -/
theorem C12_pruning_lossless (o d : P) (ts : List Tri) (buf : Rat) (hb : 0 ≤ buf) (hd : SubUnit d) :
    rayHitsPruned o d ts buf = rayHits o d ts :=
  rayHitsPruned_eq o d ts buf hb hd

example : SubUnit ((3 : Rat) / 5, 0, (-4 : Rat) / 5) ∧ (0 : Rat) ≤ 1 / 100000 := by
  unfold SubUnit; norm_num

/-- the unit-direction hypothesis is needed: with the clamp `t < buffer_dist → buffer_dist` in ray
    parameter units, a direction of length 10^6 pushes the clamped segment past a triangle 4.5 units
    ahead of the origin and the hit is pruned away (what the numpy engine did before `ray_triangle_id`
    normalised its directions) -/
theorem C12_pruning_needs_unit_direction :
    let t : Tri := ((-1 / 2, -1, -1), (-1 / 2, 2, -1), (-1 / 2, -1, 2))
    let o : P := (-5, 1 / 10, 1 / 5)
    let d : P := (1000000, 0, 0)
    rayHits o d [t] = [(0, 9 / 2000000)] ∧ rayHitsPruned o d [t] (1 / 100000) = [] := by
  decide +kernel

/-- **`nearby_faces` keeps the triangle that attains the minimum**: if `r` is at least the distance to
    some corner of some triangle of the (non-degenerate) mesh — the code uses the nearest vertex — then the
    triangle on which the exhaustive search finds the closest point is among the candidates -/
theorem C12_nearby_complete (p : P) (ts : List Tri) (hnd : ∀ t ∈ ts, NonDeg t) (r : Rat) (hr : 0 ≤ r)
    (t' : Tri) (ht' : t' ∈ ts)
    (hcorner : dist2 p t'.1 ≤ r * r ∨ dist2 p t'.2.1 ≤ r * r ∨ dist2 p t'.2.2 ≤ r * r)
    (i : Nat) (q : P) (d : Rat) (h : closestOnMesh p ts = some (i, q, d)) :
    i ∈ nearbyFaces p r ts :=
  nearby_complete p ts hnd r hr t' ht' hcorner i q d h


/-! ### (G) the inclusion test of the source: `points_to_barycentric` traced (Generated/C12Bary.lean) -/

section bary
open TV.Generated.C12

/-- (G) **the barycentric weights the code computes (Cramer's rule, traced from the source) are the ones of the
    model's inclusion test**: same denominator, same numerators, for every triangle and point -/
theorem C12_barycentric_of_source (a1 a2 a3 b1 b2 b3 c1 c2 c3 p1 p2 p3 : Rat)
    (hd : cramerDen a1 a2 a3 b1 b2 b3 c1 c2 c3 p1 p2 p3 ≠ 0) :
    baryCramer ((a1, a2, a3), (b1, b2, b3), (c1, c2, c3)) (p1, p2, p3) =
      some (cramerNum1 a1 a2 a3 b1 b2 b3 c1 c2 c3 p1 p2 p3 / cramerDen a1 a2 a3 b1 b2 b3 c1 c2 c3 p1 p2 p3,
            cramerNum2 a1 a2 a3 b1 b2 b3 c1 c2 c3 p1 p2 p3 / cramerDen a1 a2 a3 b1 b2 b3 c1 c2 c3 p1 p2 p3) := by
  have e : dot (sub (b1, b2, b3) (a1, a2, a3)) (sub (b1, b2, b3) (a1, a2, a3)) *
        dot (sub (c1, c2, c3) (a1, a2, a3)) (sub (c1, c2, c3) (a1, a2, a3)) -
      dot (sub (b1, b2, b3) (a1, a2, a3)) (sub (c1, c2, c3) (a1, a2, a3)) *
        dot (sub (b1, b2, b3) (a1, a2, a3)) (sub (c1, c2, c3) (a1, a2, a3))
      = cramerDen a1 a2 a3 b1 b2 b3 c1 c2 c3 p1 p2 p3 := by
    simp only [dot, sub, cramerDen]; ring
  unfold baryCramer
  simp only [e, hd, if_false, Option.some.injEq, Prod.mk.injEq]
  constructor
  · congr 1; simp only [dot, sub, cramerNum1]; ring
  · congr 1; simp only [dot, sub, cramerNum2]; ring

/-- (G) the two methods of `points_to_barycentric` (`cramer`, `cross`) compute the same weights wherever both are
    defined (Lagrange's identity between their denominators) -/
theorem C12_barycentric_methods_agree (a1 a2 a3 b1 b2 b3 c1 c2 c3 p1 p2 p3 : Rat) :
    cramerNum1 a1 a2 a3 b1 b2 b3 c1 c2 c3 p1 p2 p3 * crossDen a1 a2 a3 b1 b2 b3 c1 c2 c3 p1 p2 p3 =
      crossNum1 a1 a2 a3 b1 b2 b3 c1 c2 c3 p1 p2 p3 * cramerDen a1 a2 a3 b1 b2 b3 c1 c2 c3 p1 p2 p3 ∧
    cramerNum2 a1 a2 a3 b1 b2 b3 c1 c2 c3 p1 p2 p3 * crossDen a1 a2 a3 b1 b2 b3 c1 c2 c3 p1 p2 p3 =
      crossNum2 a1 a2 a3 b1 b2 b3 c1 c2 c3 p1 p2 p3 * cramerDen a1 a2 a3 b1 b2 b3 c1 c2 c3 p1 p2 p3 := by
  constructor <;> simp only [cramerNum1, cramerNum2, cramerDen, crossNum1, crossNum2, crossDen] <;> ring

end bary

end TV.C12
