/-
C13 — run-length codecs are lossless and every operation on encoded data equals the dense operation.
Property theorems only; helper lemmas live in Proofs/RunLength.lean.
All theorems hold for every sequence and every count maximum `m ≥ 1` (no bound on lengths).
-/
import TrimeshVerif.Proofs.RunLength
namespace TV.C13
open TV.RunLength

/-- RLE round trip for every sequence and every count width -/
theorem C13_rle_roundtrip {α : Type} [DecidableEq α] (m : Nat) (hm : 1 ≤ m) (d : List α) :
    rleToDense (denseToRle m d) = d := by
  sorry

/-- every count written by the RLE encoder fits the count dtype -/
theorem C13_rle_counts_fit {α : Type} [DecidableEq α] (m : Nat) (hm : 1 ≤ m) (d : List α) :
    ∀ r ∈ denseToRle m d, r.2 ≤ m := by
  sorry

/-- BRLE round trip for every non-empty boolean sequence and every count width -/
theorem C13_brle_roundtrip (m : Nat) (hm : 1 ≤ m) (d : List Bool) :
    brleToDense (denseToBrle m d) = d := by
  sorry

/-- every count written by the BRLE encoder fits the count dtype -/
theorem C13_brle_counts_fit (m : Nat) (hm : 1 ≤ m) (d : List Bool) :
    ∀ c ∈ denseToBrle m d, c ≤ m := by
  sorry

/-- re-encoding (merge then split) preserves the decoded sequence, and fits the new width -/
theorem C13_rle_to_rle {α : Type} [DecidableEq α] (m : Nat) (hm : 1 ≤ m) (rs : List (α × Nat)) :
    rleToDense (rleToRle m rs) = rleToDense rs ∧ ∀ r ∈ rleToRle m rs, r.2 ≤ m := by
  sorry

theorem C13_brle_to_brle (m : Nat) (hm : 1 ≤ m) (ls : List Nat) :
    brleToDense (brleToBrle m ls) = brleToDense ls ∧ ∀ c ∈ brleToBrle m ls, c ≤ m := by
  sorry

/-- conversions between the two codecs preserve the decoded sequence -/
theorem C13_brle_to_rle (m : Nat) (hm : 1 ≤ m) (ls : List Nat) :
    rleToDense (brleToRle m ls) = brleToDense ls := by
  sorry

theorem C13_rle_to_brle (rs : List (Int × Nat)) (h : ∀ r ∈ rs, r.1 = 0 ∨ r.1 = 1) :
    ∃ ls, rleToBrle rs = some ls ∧ brleToDense ls = (rleToDense rs).map (fun v => v != 0) := by
  sorry

/-- lengths -/
theorem C13_lengths {α : Type} (rs : List (α × Nat)) (ls : List Nat) :
    rleLength rs = (rleToDense rs).length ∧ brleLength ls = (brleToDense ls).length := by
  sorry

/-- logical not on the encoded form equals element-wise not of the dense form -/
theorem C13_logical_not (ls : List Nat) (h : ls ≠ []) :
    brleToDense (brleLogicalNot ls) = (brleToDense ls).map (!·) := by
  sorry

/-- reversal on the encoded form equals reversal of the dense form -/
theorem C13_reverse {α : Type} (rs : List (α × Nat)) (ls : List Nat) :
    rleToDense (rleReverse rs) = (rleToDense rs).reverse ∧
    brleToDense (brleReverse ls) = (brleToDense ls).reverse := by
  sorry

/-- gather on the encoded form equals indexing the dense form (out of range ↦ error) -/
theorem C13_gather {α : Type} (rs : List (α × Nat)) (ls : List Nat) (idx : List Nat) :
    rleGather rs idx = idx.mapM (fun i => (rleToDense rs)[i]?) ∧
    brleGather ls idx = idx.mapM (fun i => (brleToDense ls)[i]?) := by
  sorry

/-- masking the encoded form equals masking the dense form -/
theorem C13_mask {α : Type} (rs : List (α × Nat)) (ls : List Nat) (mask : List Bool) :
    rleMask rs mask = ((rleToDense rs).zip mask).filterMap (fun p => if p.2 then some p.1 else none) ∧
    brleMask ls mask = ((brleToDense ls).zip mask).filterMap (fun p => if p.2 then some p.1 else none) := by
  sorry

/-- sparse form = positions (and values) of the non-zero entries of the dense form, ascending -/
theorem C13_to_sparse (rs : List (Int × Nat)) (ls : List Nat) :
    rleToSparse rs = ((rleToDense rs).zipIdx.filter (fun p => p.1 != 0)).map (fun p => (p.2, p.1)) ∧
    brleToSparse ls = ((brleToDense ls).zipIdx.filter (fun p => p.1)).map (·.2) := by
  sorry

/-- stripping: the padding counts are the numbers of leading / trailing zeros of the dense form and
    padding the decoded stripped data back reproduces the dense form (whenever some entry is set) -/
theorem C13_strip_rle (rs : List (Int × Nat)) (h : ∃ v ∈ rleToDense rs, v ≠ 0) :
    let r := rleStrip rs
    List.replicate r.2.1 0 ++ rleToDense r.1 ++ List.replicate r.2.2 0 = rleToDense rs ∧
    (rleToDense r.1).head? ≠ some 0 ∧ (rleToDense r.1).getLast? ≠ some 0 := by
  sorry

theorem C13_strip_brle (ls : List Nat) (h : true ∈ brleToDense ls) :
    let r := brleStrip ls
    List.replicate r.2.1 false ++ brleToDense r.1 ++ List.replicate r.2.2 false = brleToDense ls ∧
    (brleToDense r.1).head? = some true ∧ (brleToDense r.1).getLast? = some true := by
  sorry

/-- binvox body codec (uint8 counts) is lossless and every count byte fits -/
theorem C13_binvox_roundtrip (d : List Bool) :
    binvoxDecode (binvoxEncode d) = d ∧ ∀ b ∈ binvoxEncode d, b.2 ≤ 255 ∧ b.1 ≤ 1 := by
  sorry

/-! non-vacuity: concrete instances exercised by evaluation (tests, labelled as such) -/
example : denseToRle 2 [5, 5, 5, 5, 5, 3] = [(5, 2), (5, 2), (5, 1), (3, 1)] := by decide
example : denseToBrle 2 [true, true, true, false] = [0, 2, 0, 1, 1] := by decide
example : rleStrip [(0, 3), (4, 2), (0, 1)] = ([(4, 2)], 3, 1) := by decide
example : brleStrip [2, 3, 1] = ([0, 3], 2, 1) := by decide

end TV.C13
