/-
C13 — run-length codecs are lossless and every operation on encoded data equals the dense operation.
Property theorems only; helper lemmas live in Proofs/RunLength.lean.
All theorems hold for every sequence and every count maximum `m ≥ 1` (no bound on lengths).
-/
import TrimeshVerif.Proofs.RunLength
import TrimeshVerif.Proofs.Views
import TrimeshVerif.Proofs.Grid
import TrimeshVerif.Generated.C13Table
namespace TV.C13
open TV.RunLength

/-- RLE round trip for every sequence and every count width -/
theorem C13_rle_roundtrip {α : Type} [DecidableEq α] (m : Nat) (hm : 1 ≤ m) (d : List α) :
    rleToDense (denseToRle m d) = d := by
  have _ := hm
  unfold denseToRle
  rw [splitLongRle_dense, runsOf_dense]

/-- every count written by the RLE encoder fits the count dtype -/
theorem C13_rle_counts_fit {α : Type} [DecidableEq α] (m : Nat) (hm : 1 ≤ m) (d : List α) :
    ∀ r ∈ denseToRle m d, r.2 ≤ m := by
  exact splitLongRle_fit m hm _

/-- BRLE round trip for every non-empty boolean sequence and every count width -/
theorem C13_brle_roundtrip (m : Nat) (hm : 1 ≤ m) (d : List Bool) :
    brleToDense (denseToBrle m d) = d := by
  have _ := hm
  unfold denseToBrle brleToDense
  dsimp only
  split
  · rename_i hd
    rw [brleFrom_cons, splitLongBrle_dense]
    exact runsOf_brle d true (Or.inl hd)
  · rename_i hd
    rw [splitLongBrle_dense]
    apply runsOf_brle
    cases d with
    | nil => exact Or.inr rfl
    | cons x xs =>
      left
      cases x
      · rfl
      · exact absurd rfl hd

/-- every count written by the BRLE encoder fits the count dtype -/
theorem C13_brle_counts_fit (m : Nat) (hm : 1 ≤ m) (d : List Bool) :
    ∀ c ∈ denseToBrle m d, c ≤ m := by
  intro c hc
  unfold denseToBrle at hc
  dsimp only at hc
  split at hc
  · rcases List.mem_cons.1 hc with rfl | hc
    · exact Nat.zero_le _
    · exact splitLongBrle_fit m hm _ c hc
  · exact splitLongBrle_fit m hm _ c hc

/-- re-encoding (merge then split) preserves the decoded sequence, and fits the new width -/
theorem C13_rle_to_rle {α : Type} [DecidableEq α] (m : Nat) (hm : 1 ≤ m) (rs : List (α × Nat)) :
    rleToDense (rleToRle m rs) = rleToDense rs ∧ ∀ r ∈ rleToRle m rs, r.2 ≤ m := by
  unfold rleToRle
  exact ⟨by rw [splitLongRle_dense, mergeRle_dense], splitLongRle_fit m hm _⟩

theorem C13_brle_to_brle (m : Nat) (hm : 1 ≤ m) (ls : List Nat) :
    brleToDense (brleToBrle m ls) = brleToDense ls ∧ ∀ c ∈ brleToBrle m ls, c ≤ m := by
  unfold brleToBrle
  refine ⟨?_, splitLongBrle_fit m hm _⟩
  unfold brleToDense
  rw [splitLongBrle_dense]
  exact mergeBrle_dense ls

/-- conversions between the two codecs preserve the decoded sequence -/
theorem C13_brle_to_rle (m : Nat) (hm : 1 ≤ m) (ls : List Nat) :
    rleToDense (brleToRle m ls) = brleToDense ls := by
  have _ := hm
  exact brleToRle_dense m ls

theorem C13_rle_to_brle (rs : List (Int × Nat)) (h : ∀ r ∈ rs, r.1 = 0 ∨ r.1 = 1) :
    ∃ ls, rleToBrle rs = some ls ∧ brleToDense ls = (rleToDense rs).map (fun v => v != 0) := by
  exact rleToBrle_spec rs h

/-- lengths -/
theorem C13_lengths {α : Type} (rs : List (α × Nat)) (ls : List Nat) :
    rleLength rs = (rleToDense rs).length ∧ brleLength ls = (brleToDense ls).length := by
  constructor
  · unfold rleLength
    induction rs with
    | nil => rfl
    | cons r t ih => simp [rleToDense_cons', ih]
  · unfold brleLength brleToDense
    rw [brleFrom_length]

/-- logical not on the encoded form equals element-wise not of the dense form -/
theorem C13_logical_not (ls : List Nat) (h : ls ≠ []) :
    brleToDense (brleLogicalNot ls) = (brleToDense ls).map (!·) := by
  exact brleLogicalNot_dense ls h

/-- reversal on the encoded form equals reversal of the dense form -/
theorem C13_reverse {α : Type} (rs : List (α × Nat)) (ls : List Nat) :
    rleToDense (rleReverse rs) = (rleToDense rs).reverse ∧
    brleToDense (brleReverse ls) = (brleToDense ls).reverse := by
  exact ⟨rleReverse_dense rs, brleReverse_dense ls⟩

/-- gather on the encoded form equals indexing the dense form (out of range ↦ error) -/
theorem C13_gather {α : Type} (rs : List (α × Nat)) (ls : List Nat) (idx : List Nat) :
    rleGather rs idx = idx.mapM (fun i => (rleToDense rs)[i]?) ∧
    brleGather ls idx = idx.mapM (fun i => (brleToDense ls)[i]?) := by
  constructor
  · unfold rleGather
    congr 1
    funext i
    exact rleAt_eq rs i
  · unfold brleGather brleToDense
    congr 1
    funext i
    exact brleAtFrom_eq false ls i

/-- masking the encoded form equals masking the dense form -/
theorem C13_mask {α : Type} (rs : List (α × Nat)) (ls : List Nat) (mask : List Bool) :
    rleMask rs mask = ((rleToDense rs).zip mask).filterMap (fun p => if p.2 then some p.1 else none) ∧
    brleMask ls mask = ((brleToDense ls).zip mask).filterMap (fun p => if p.2 then some p.1 else none) := by
  exact ⟨rleMask_eq rs mask, brleMaskFrom_eq false ls mask⟩

/-- sparse form = positions (and values) of the non-zero entries of the dense form, ascending -/
theorem C13_to_sparse (rs : List (Int × Nat)) (ls : List Nat) :
    rleToSparse rs = ((rleToDense rs).zipIdx.filter (fun p => p.1 != 0)).map (fun p => (p.2, p.1)) ∧
    brleToSparse ls = ((brleToDense ls).zipIdx.filter (fun p => p.1)).map (·.2) := by
  exact ⟨rleToSparseAux_eq rs 0, brleToSparseAux_eq ls false 0⟩

/-- stripping: the padding counts are the numbers of leading / trailing zeros of the dense form and
    padding the decoded stripped data back reproduces the dense form (whenever some entry is set) -/
theorem C13_strip_rle (rs : List (Int × Nat)) (h : ∃ v ∈ rleToDense rs, v ≠ 0) :
    let r := rleStrip rs
    List.replicate r.2.1 0 ++ rleToDense r.1 ++ List.replicate r.2.2 0 = rleToDense rs ∧
    (rleToDense r.1).head? ≠ some 0 ∧ (rleToDense r.1).getLast? ≠ some 0 := by
  exact rleStrip_spec rs h

theorem C13_strip_brle (ls : List Nat) (h : true ∈ brleToDense ls) :
    let r := brleStrip ls
    List.replicate r.2.1 false ++ brleToDense r.1 ++ List.replicate r.2.2 false = brleToDense ls ∧
    (brleToDense r.1).head? = some true ∧ (brleToDense r.1).getLast? = some true := by
  exact brleStrip_spec ls h

/-- binvox body codec (uint8 counts) is lossless and every count byte fits -/
theorem C13_binvox_roundtrip (d : List Bool) :
    binvoxDecode (binvoxEncode d) = d ∧ ∀ b ∈ binvoxEncode d, b.2 ≤ 255 ∧ b.1 ≤ 1 := by
  unfold binvoxDecode binvoxEncode
  constructor
  · rw [List.map_map]
    have : ((fun r : Nat × Nat => (r.1 != 0, r.2)) ∘ fun r : Bool × Nat => (if r.1 then 1 else 0, r.2))
        = id := by
      funext r
      obtain ⟨b, c⟩ := r
      cases b <;> rfl
    rw [this, List.map_id]
    exact C13_rle_roundtrip 255 (by decide) d
  · intro b hb
    rw [List.mem_map] at hb
    obtain ⟨r, hr, rfl⟩ := hb
    refine ⟨C13_rle_counts_fit 255 (by decide) d r hr, ?_⟩
    dsimp only
    split <;> decide


/-! ### lazy views: the index maps of FlattenedEncoding / ShapedEncoding / FlippedEncoding / TransposedEncoding -/

section views
open TV.Views

/-- **`ravel_multi_index` and `unravel_index` are mutually inverse** on every shape (any rank, any extents):
    the flattened and reshaped views address the same entries as the array they wrap -/
theorem C13_ravel_unravel (shape : List Nat) :
    (∀ idx, inRange shape idx = true →
        ravel shape idx < size shape ∧ unravel shape (ravel shape idx) = idx) ∧
    (∀ k, k < size shape → inRange shape (unravel shape k) = true ∧ ravel shape (unravel shape k) = k) :=
  ⟨fun idx h => ⟨ravel_lt shape idx h, unravel_ravel shape idx h⟩, fun k h => ravel_unravel shape k h⟩

/-- **reshaped / flattened view**: reading the view at an in-range multi-index reads the entry at the same
    C-order position of the base (`gather_nd`, `get_value` through `_to_base_indices`) -/
theorem C13_reshape_view {α : Type} (d : α) (oldShape newShape : List Nat) (data : List α) (idx : List Nat)
    (hs : size oldShape = size newShape) (hr : inRange newShape idx = true) :
    entry d oldShape data (reshapeIdx oldShape newShape idx) = entry d newShape data idx ∧
    inRange oldShape (reshapeIdx oldShape newShape idx) = true :=
  reshape_entry d oldShape newShape data idx hs hr

/-- **flipped view**: `_to_base_indices` is an involution that keeps indices in range (so it is also
    `_from_base_indices`), and mapping the sparse indices of the base through it gives exactly the positions
    where the flipped array is non-zero; in one dimension the flipped array is the reversed list -/
theorem C13_flip_view (shape axes : List Nat) (data : List Int) (idx : List Nat) :
    (inRange shape idx = true → inRange shape (flipIdx shape axes idx) = true ∧
        flipIdx shape axes (flipIdx shape axes idx) = idx) ∧
    (idx ∈ (sparseIdx shape data).map (flipIdx shape axes) ↔
        inRange shape idx = true ∧ entry 0 shape data (flipIdx shape axes idx) ≠ 0) :=
  ⟨fun h => ⟨flipIdx_inRange shape axes idx h, flipIdx_involutive shape axes idx h⟩,
   flip_sparse shape axes data idx⟩

theorem C13_flip_1d (data : List Int) (i : Nat) (hi : i < data.length) :
    data.reverse.getD i 0 = entry 0 [data.length] data (flipIdx [data.length] [0] [i]) :=
  flip_1d data i hi

/-- **transposed view, partial**: `np.transpose(dense, perm)[idx]` reads the base at `j` with
    `j[perm[d]] = idx[d]` (`transposeBase`); the code's `np.take(indices, perm)` is that index when the
    permutation is its own inverse - every 2-D transpose and every swap of two axes -/
theorem C13_transpose_view_partial (perm idx : List Nat) (hn : perm.Nodup) (hr : ∀ p ∈ perm, p < perm.length)
    (hl : idx.length = perm.length) :
    takeIdx perm (transposeBase perm idx) = idx ∧
    ((∀ d, d < perm.length → perm.getD (perm.getD d 0) 0 = d) → takeIdx perm idx = transposeBase perm idx) :=
  ⟨transposeBase_spec perm idx hn hr hl, takeIdx_eq_transposeBase_of_involution perm idx hn hr⟩

/-- the full statement fails for the code as it is: for a cyclic permutation of three axes the code's index
    map reads a different entry than `np.transpose` (known finding: transposed `gather_nd` / `sparse_indices`
    for 3-cycles) -/
theorem C13_transpose_view_cycle_witness :
    takeIdx [1, 2, 0] [0, 1, 2] = [1, 2, 0] ∧ transposeBase [1, 2, 0] [0, 1, 2] = [2, 0, 1] := by decide

example : inRange [2, 3, 4] [1, 2, 3] = true ∧ ravel [2, 3, 4] [1, 2, 3] = 23 ∧ unravel [2, 3, 4] 23 = [1, 2, 3] ∧
    flipIdx [2, 3, 4] [0, 2] [1, 2, 3] = [0, 2, 0] := by decide

end views


/-! ### grid addressing: `points_to_indices` / `indices_to_points` -/

section grid
open TV.Grid

/-- **cell centres and indices are inverse**: `points_to_indices(indices_to_points(i)) = i` for every index, pitch
    (non-zero) and origin; and every point closer than half a pitch to a cell centre is addressed as that cell -/
theorem C13_grid (pitch origin : Rat) (i : Int) :
    (pitch ≠ 0 → pointToIndex pitch origin (indexToPoint pitch origin i) = i) ∧
    (0 < pitch → ∀ p, indexToPoint pitch origin i - pitch / 2 < p → p < indexToPoint pitch origin i + pitch / 2 →
        pointToIndex pitch origin p = i) :=
  ⟨fun hp => index_point_index pitch origin hp i, fun hp p h1 h2 => point_in_cell pitch origin p hp i h1 h2⟩

/-- a point exactly between two cells goes to the even one (`np.round`) -/
theorem C13_grid_ties (i : Int) : roundHE ((i : Rat) + 1 / 2) = if i % 2 = 0 then i else i + 1 :=
  roundHE_half i

/-- the in-place operations of the source on a coordinate (`origin` and `pitch` both given) -/
inductive GridOp | subOrigin | addOrigin | divPitch | mulPitch
  deriving DecidableEq

def parseOp (op : String) : Option GridOp :=
  if op = "-= origin | origin is not None" then some .subOrigin
  else if op = "+= origin | origin is not None" then some .addOrigin
  else if op = "/= pitch | pitch is not None" then some .divPitch
  else if op = "*= pitch | pitch is not None" then some .mulPitch
  else none

def applyOp (pitch origin : Rat) (x : Rat) : GridOp → Rat
  | .subOrigin => x - origin
  | .addOrigin => x + origin
  | .divPitch => x / pitch
  | .mulPitch => x * pitch

/-- **(G) the grid arithmetic of the source is the model's**: the in-place operations `points_to_indices` and
    `indices_to_points` apply, read from `voxel/ops.py` by `ast` on every run (operation, operand, guard, order), are
    "subtract the origin, divide by the pitch, `np.round`" and "multiply by the pitch, add the origin" - the
    functions `C13_grid` is about -/
theorem C13_grid_of_source :
    TV.Generated.C13.pointsToIndicesOps.map parseOp = [some .subOrigin, some .divPitch] ∧
    TV.Generated.C13.pointsToIndicesFinal = "np.round(points).astype(int)" ∧
    TV.Generated.C13.indicesToPointsOps.map parseOp = [some .mulPitch, some .addOrigin] ∧
    (∀ pitch origin p : Rat,
      roundHE ([GridOp.subOrigin, .divPitch].foldl (applyOp pitch origin) p) = pointToIndex pitch origin p) ∧
    (∀ (pitch origin : Rat) (i : Int),
      [GridOp.mulPitch, .addOrigin].foldl (applyOp pitch origin) (i : Rat) = indexToPoint pitch origin i) := by
  refine ⟨by decide, by decide, by decide, fun _ _ _ => rfl, fun _ _ _ => rfl⟩

end grid

/-! non-vacuity: concrete instances exercised by evaluation (tests, labelled as such) -/
example : denseToRle 2 [5, 5, 5, 5, 5, 3] = [(5, 2), (5, 2), (5, 1), (3, 1)] := by decide
example : denseToBrle 2 [true, true, true, false] = [0, 2, 0, 1, 1] := by decide
example : rleStrip [(0, 3), (4, 2), (0, 1)] = ([(4, 2)], 3, 1) := by decide
example : brleStrip [2, 3, 1] = ([0, 3], 2, 1) := by decide

end TV.C13
