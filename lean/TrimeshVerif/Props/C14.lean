/-
C14 — Paths rebuild the same regions from segments in any order.
Property theorems only; helper lemmas live in Proofs/Path.lean.
-/
import TrimeshVerif.Proofs.Path
import TrimeshVerif.Generated.C14Arc
import TrimeshVerif.Proofs.Enclosure
import Mathlib.Tactic.Ring
import Mathlib.Tactic.FieldSimp
namespace TV.C14
open TV.Path

/-- the swept area is the sum over the directed segments -/
theorem C14_sum_segs (l : List P2) : openSum l = ((segs l).map (fun s => cross2 s.1 s.2)).sum := by
  exact openSum_eq_sum_segs l

/-- **any order**: two vertex loops made of the same directed segments in any order (start anywhere, entities
    listed in any order) enclose the same signed area -/
theorem C14_area_perm (l1 l2 : List P2) (h : (segs l1).Perm (segs l2)) : openSum l1 = openSum l2 := by
  rw [openSum_eq_sum_segs, openSum_eq_sum_segs]; exact sum_map_perm _ h

/-- and the same total squared-length multiset, hence the same length -/
theorem C14_length_perm (l1 l2 : List P2) (h : (segs l1).Perm (segs l2)) : (sqLens l1).Perm (sqLens l2) := by
  exact h.map _

/-- **either direction**: walking a polyline backwards negates the swept area and keeps every segment length -/
theorem C14_reverse (l : List P2) : openSum l.reverse = - openSum l ∧ (sqLens l.reverse).Perm (sqLens l) := by
  exact ⟨openSum_reverse l, sqLens_reverse_perm l⟩

/-- **any splitting**: chaining pieces (each starting where the previous ended) adds up their swept areas -/
theorem C14_join (ps : List (List P2)) (h : chained ps = true) :
    openSum (joinChain ps) = (ps.map openSum).sum := by
  exact openSum_joinChain ps h

/-- entities traversed backwards by the walk contribute with the opposite sign: the loop rebuilt from
    entities in stored direction `e.1` and walk direction `e.2` has area Σ ± openSum -/
theorem C14_join_oriented (es : List (List P2 × Bool)) (h : chained (es.map orient) = true) :
    openSum (joinChain (es.map orient)) = (es.map (fun e => if e.2 then - openSum e.1 else openSum e.1)).sum := by
  rw [openSum_joinChain _ h, List.map_map]
  congr 1
  apply List.map_congr_left
  intro e _
  exact openSum_orient e

/-- **affine maps**: the signed area of a closed loop is multiplied by the determinant (so by s² under a
    similarity, by ±1 under a rigid map or a mirror), whatever the translation -/
theorem C14_affine_area (A : M2) (t : P2) (l : List P2) (hc : isClosed l = true) :
    openSum (l.map (apply A t)) = det2 A * openSum l := by
  exact openSum_map_apply_closed A t l hc

/-- **similarities scale every segment length by s** (squared lengths by s²) -/
theorem C14_similarity_length (A : M2) (t : P2) (s2 : Rat)
    (h1 : A.1.1 * A.1.1 + A.2.1 * A.2.1 = s2) (h2 : A.1.2 * A.1.2 + A.2.2 * A.2.2 = s2)
    (h3 : A.1.1 * A.1.2 + A.2.1 * A.2.2 = 0) (a b : P2) :
    sqLen (apply A t a) (apply A t b) = s2 * sqLen a b := by
  exact sqLen_apply A t s2 h1 h2 h3 a b

/-- **three-point arc centre** is equidistant from the three control points -/
theorem C14_arc_center (p0 p1 p2 o : P2) (h : arcCenter p0 p1 p2 = some o) :
    sqLen o p0 = sqLen o p1 ∧ sqLen o p1 = sqLen o p2 := by
  exact arcCenter_equidistant p0 p1 p2 o h

/-- collinear control points have no centre (`arc is colinear`) -/
theorem C14_arc_collinear (p0 p1 p2 : P2) (h : cross2 (sub2 p1 p0) (sub2 p2 p0) = 0) : arcCenter p0 p1 p2 = none := by
  exact arcCenter_collinear p0 p1 p2 h

/-- the area of a region does not depend on the direction in which its shell and holes are stored -/
theorem C14_region_orientation (shell : List P2) (holes : List (List P2)) :
    regionArea2 shell.reverse (holes.map List.reverse) = regionArea2 shell holes := by
  exact regionArea2_reverse shell holes


/-! ### (G) `arc_center` traced from the source (Generated/C14Arc.lean) -/

section arcsrc
open TV.Generated.C14

/-- (G) **the centre the code computes is the centre of the model**: same weights, same denominator, for every
    three control points (so `C14_arc_center` and `C14_arc_collinear` are statements about the source) -/
theorem C14_arc_center_of_source (x0 y0 x1 y1 x2 y2 : Rat) (hd : centerDen x0 y0 x1 y1 x2 y2 ≠ 0) :
    arcCenter (x0, y0) (x1, y1) (x2, y2) =
      some (centerNumX x0 y0 x1 y1 x2 y2 / centerDen x0 y0 x1 y1 x2 y2,
            centerNumY x0 y0 x1 y1 x2 y2 / centerDen x0 y0 x1 y1 x2 y2) := by
  have e : sqLen (x2, y2) (x1, y1) * (sqLen (x0, y0) (x2, y2) + sqLen (x1, y1) (x0, y0) - sqLen (x2, y2) (x1, y1)) +
      sqLen (x0, y0) (x2, y2) * (sqLen (x2, y2) (x1, y1) + sqLen (x1, y1) (x0, y0) - sqLen (x0, y0) (x2, y2)) +
      sqLen (x1, y1) (x0, y0) * (sqLen (x2, y2) (x1, y1) + sqLen (x0, y0) (x2, y2) - sqLen (x1, y1) (x0, y0))
      = centerDen x0 y0 x1 y1 x2 y2 := by
    simp only [sqLen, sub2, centerDen]; ring
  unfold arcCenter
  simp only [e, hd, if_false, Option.some.injEq, Prod.mk.injEq]
  constructor
  · congr 1; simp only [sqLen, sub2, centerNumX]; ring
  · congr 1; simp only [sqLen, sub2, centerNumY]; ring

end arcsrc


/-! ### shells and holes (`enclosure_tree`) -/

section enclosure
open TV.Enclosure
variable {n : Nat} {C : Fin n → Fin n → Prop} [DecidableRel C]

/-- **nesting into shells and holes**: order the closed polygons by containment (nested or disjoint curves: a strict
    order in which the containers of a polygon form a chain) and count for each how many contain it.  Then a polygon
    contained `k` times has exactly one container of every degree below `k`; in particular every polygon of odd
    degree is the hole of exactly one shell - a polygon of even degree, one less than its own, that contains it -
    which is the rule `enclosure_tree` applies; polygons of equal degree never contain one another -/
theorem C14_enclosure (h : Laminar C) (c : Fin n) :
    (∀ d, d < deg C c → ∃! r, C r c ∧ deg C r = d) ∧
    (deg C c % 2 = 1 → ∃! r, deg C r % 2 = 0 ∧ deg C c = deg C r + 1 ∧ C r c) ∧
    (∀ a, deg C a = deg C c → ¬ C a c) :=
  ⟨fun d hd => exists_unique_container h c d hd, fun ho => hole_has_unique_shell h c ho,
   fun a ha => holes_are_siblings h a c ha⟩

end enclosure

end TV.C14
