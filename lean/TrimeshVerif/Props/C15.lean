/-
C15 — Created shapes and primitives are valid solids with analytic measures.
Property theorems only; helper lemmas live in Proofs/Creation.lean.  The box / icosahedron tables are
regenerated from trimesh/resources/creation.json on every run (Generated/C15Tables.lean).
-/
import TrimeshVerif.Proofs.Creation
import TrimeshVerif.Proofs.RevolveGrid
import TrimeshVerif.Proofs.RevolveOpen
import TrimeshVerif.Proofs.RevolveRing
import TrimeshVerif.Proofs.RevolveLoopOpen
import TrimeshVerif.Proofs.Extrude
namespace TV.C15
open TV.Query TV.Creation

/-- one quad of the revolve (two triangles, as indexed by `revolve`) seen from the origin -/
theorem C15_quad_volume (p q : Rat × Rat) (u v : Dir) :
    quadVol6 p q u v = cross2 u v * profileTerm p q := by
  exact quadVol6_eq p q u v

/-- one slice of the revolve -/
theorem C15_slice_volume (prof : List (Rat × Rat)) (u v : Dir) :
    sliceVol6 prof u v = cross2 u v * profileSum prof := by
  exact sliceVol6_eq prof u v

/-- **tessellated volume of a revolve**: for every profile and every list of slice directions (any count, full
    or partial turn), six times the volume is `(Σ_j sin Δθ_j) · Σ_k (r_k + r_{k+1})(h_{k+1} r_k − h_k r_{k+1})` -/
theorem C15_revolve_volume (prof : List (Rat × Rat)) (dirs : List Dir) :
    revolveVol6 prof dirs = dirSum dirs * profileSum prof := by
  exact revolveVol6_eq prof dirs

/-- the volume seen from the origin does not depend on where the turn starts: rotating all three corners
    about the axis leaves `vol6` unchanged -/
theorem C15_rot_invariant (c s : Rat) (h : c * c + s * s = 1) (a b d : P) :
    vol6 (rotZ c s a) (rotZ c s b) (rotZ c s d) = vol6 a b d := by
  exact rot_invariant c s h a b d

/-- profile sums of the shapes built on `revolve`: cylinder `3 h R²`, cone `h R²`, annulus `3 h (R² − r²)`;
    with `n` equal slices of angle `2π/n` this gives `V = (n sin(2π/n) / 2) · R² h` etc., below the smooth value
    and approaching it as `n` grows -/
theorem C15_profiles (R r h : Rat) :
    profileSum [(0, -h / 2), (R, -h / 2), (R, h / 2), (0, h / 2)] = 3 * h * (R * R) ∧
    profileSum [(0, 0), (R, 0), (0, h)] = h * (R * R) ∧
    profileSum [(r, -h / 2), (R, -h / 2), (R, h / 2), (r, h / 2), (r, -h / 2)] = 3 * h * (R * R - r * r) := by
  exact profiles R r h

/-- every index produced by the face arithmetic is a valid vertex index -/
theorem C15_revolve_faces_in_range (per slices nVerts : Nat) (keep : Nat → Bool) (hn : 0 < nVerts) :
    ∀ f ∈ revolveFaces per slices nVerts keep, f.1 < nVerts ∧ f.2.1 < nVerts ∧ f.2.2 < nVerts := by
  exact revolveFaces_in_range per slices nVerts keep hn

/-- and each slice contributes the same number of faces -/
theorem C15_revolve_faces_count (per slices nVerts : Nat) (keep : Nat → Bool) :
    (revolveFaces per slices nVerts keep).length = slices * (single per keep).length := by
  exact revolveFaces_count per slices nVerts keep

/-- **box**: the table in creation.json is a closed, consistently wound surface -/
theorem C15_box_closed : TV.Remesh.Closed TV.Generated.boxFaces := by
  exact box_closed

/-- **box volume is the product of the extents** (positive: wound outwards), for every extents -/
theorem C15_box_volume (ext : P) :
    boxVol6 ext TV.Generated.boxCorners TV.Generated.boxFaces = 6 * (ext.1 * ext.2.1 * ext.2.2) := by
  exact box_volume ext

/-- box bounds are `± extents / 2` -/
theorem C15_box_bounds (ext : P) (h1 : 0 ≤ ext.1) (h2 : 0 ≤ ext.2.1) (h3 : 0 ≤ ext.2.2) :
    ∀ c ∈ TV.Generated.boxCorners,
      -ext.1 / 2 ≤ (boxVertex ext c).1 ∧ (boxVertex ext c).1 ≤ ext.1 / 2 ∧
      -ext.2.1 / 2 ≤ (boxVertex ext c).2.1 ∧ (boxVertex ext c).2.1 ≤ ext.2.1 / 2 ∧
      -ext.2.2 / 2 ≤ (boxVertex ext c).2.2 ∧ (boxVertex ext c).2.2 ≤ ext.2.2 / 2 := by
  exact box_bounds ext h1 h2 h3

/-- **icosphere**: the icosahedron table is closed and consistently wound, and so is every subdivision of it
    (any symmetric midpoint numbering), hence `icosphere(subdivisions = n)` for every `n` -/
theorem C15_icosphere_closed (mid : Nat → Nat → Nat) (hsym : ∀ a b, mid a b = mid b a) (n : Nat) :
    TV.Remesh.Closed ((TV.Remesh.subdivideFaces mid)^[n] TV.Generated.icoFaces) := by
  exact icosphere_closed mid hsym n

/-- **a full-turn revolve of an axis-to-axis profile is closed and consistently wound for every number of
    profile points and every number of slices**: after the two axis points are merged, every directed edge of
    the faces `revolve` keeps is matched by its reverse -/
theorem C15_revolve_closed (per slices : Nat) (hper : 3 ≤ per) (hs : 3 ≤ slices) :
    TV.RevolveGrid.Closed (TV.RevolveGrid.revolveSurface per slices) :=
  TV.RevolveGrid.revolve_closed per slices hper hs

/-- the faces of that theorem are exactly what the index arithmetic of `revolve` produces when the
    zero-area triangles at the axis (and the wrap-around quad) are dropped -/
theorem C15_revolve_grid_is_code (per slices : Nat) (hper : 3 ≤ per) (hs : 1 ≤ slices) :
    TV.RevolveGrid.gridFaces per slices =
      revolveFaces per slices (per * slices) (TV.RevolveGrid.axisKeep per) :=
  TV.RevolveGrid.grid_eq_revolveFaces per slices hper hs


/-! ### extrusions -/

/-- **an extrusion is closed and consistently wound whatever the triangulation of the cap**: take any list of
    triangles in which no directed edge occurs twice (a consistently oriented triangulation: any polygon with any
    number of holes, any engine) and no triangle repeats a vertex.  The surface `extrude_triangulation` builds -
    reversed bottom cap, top cap, two wall triangles over every edge whose undirected edge occurs once - has
    every directed edge matched by its reverse: watertight with consistent winding, for every such cap -/
theorem C15_extrude_closed (cap : List TV.Extrude.Face) (hN : (TV.Extrude.dirEdges cap).Nodup)
    (hL : ∀ e ∈ TV.Extrude.dirEdges cap, e.1 ≠ e.2) :
    (TV.Extrude.dirEdges (TV.Extrude.extrude cap)).Perm
      ((TV.Extrude.dirEdges (TV.Extrude.extrude cap)).map Prod.swap) :=
  TV.Extrude.extrude_sym cap hN hL

/-- under the same hypotheses the code's boundary test (the undirected edge occurs exactly once among all
    sorted edges) selects exactly the directed edges whose reverse is absent -/
theorem C15_extrude_boundary (cap : List TV.Extrude.Face) (hN : (TV.Extrude.dirEdges cap).Nodup)
    (hL : ∀ e ∈ TV.Extrude.dirEdges cap, e.1 ≠ e.2) :
    TV.Extrude.boundary cap =
      (TV.Extrude.dirEdges cap).filter (fun e => !(TV.Extrude.dirEdges cap).contains e.swap) :=
  TV.Extrude.boundary_eq cap hN hL

/-- non-vacuity: a square cut into two triangles meets the hypotheses; it has four boundary edges and
    extrudes to 2 + 2 + 8 triangles -/
example :
    let cap : List TV.Extrude.Face := [(0, 1, 2), (0, 2, 3)]
    (TV.Extrude.dirEdges cap).Nodup ∧ (∀ e ∈ TV.Extrude.dirEdges cap, e.1 ≠ e.2) ∧
    TV.Extrude.boundary cap = [(0, 1), (1, 2), (2, 3), (3, 0)] ∧ (TV.Extrude.extrude cap).length = 12 := by
  decide

/-- **a partial revolve with caps is closed and consistently wound for every number of sections, every profile
    length and every cap triangulation**: the profile runs from the axis to the axis (`per ≥ 3` points), the
    side walls are the triangles `revolve` keeps, `T` is the triangulation of the profile polygon placed on
    the first section and, shifted by `slices * per` and reversed (`np.fliplr`), on the last one.  The only
    thing asked of `T` is the decidable condition `capOk`: its directed edges are the polygon boundary in
    profile order plus interior edges in opposite pairs.  After the copies of the two axis points are merged
    every directed edge of the surface is matched by its reverse. -/
theorem C15_revolve_open_closed (per slices : Nat) (hper : 3 ≤ per) (T : List TV.RevolveGrid.Face)
    (hT : TV.RevolveGrid.capOk (per - 1) T = true) :
    TV.RevolveGrid.Closed (TV.RevolveGrid.openSurface per slices T) :=
  TV.RevolveGrid.revolve_open_closed per slices hper T hT

/-- the cap condition in readable form: any triangulation whose directed edges are a reversal-closed multiset
    of interior edges plus the boundary `0 → 1 → … → n → 0` satisfies it -/
theorem C15_cap_condition (n : Nat) (T : List TV.RevolveGrid.Face) (h : TV.RevolveGrid.IsCap n T) :
    TV.RevolveGrid.CapEq n T := h.capEq

/-- the side walls of that theorem are exactly what the index arithmetic of `revolve` produces for a partial
    turn (`per * (slices + 1)` vertices) when the zero-area triangles at the axis are dropped -/
theorem C15_revolve_open_grid_is_code (per slices : Nat) (hper : 3 ≤ per) :
    TV.RevolveGrid.gridFacesO per slices =
      revolveFaces per slices (per * (slices + 1)) (TV.RevolveGrid.axisKeep per) :=
  TV.RevolveGrid.gridO_eq_revolveFaces per slices hper

/-- non-vacuity: a fan and a strip triangulation of a five-point profile both meet the cap condition, a
    triangulation wound the other way does not; the capped half-open surface of two sections is closed -/
example : TV.RevolveGrid.capOk 4 [(0, 1, 2), (0, 2, 3), (0, 3, 4)] = true
    ∧ TV.RevolveGrid.capOk 4 [(0, 1, 4), (1, 2, 3), (1, 3, 4)] = true
    ∧ TV.RevolveGrid.capOk 4 [(2, 1, 0), (3, 2, 0), (4, 3, 0)] = false
    ∧ TV.RevolveGrid.closedB (TV.RevolveGrid.openSurface 5 2 [(0, 1, 2), (0, 2, 3), (0, 3, 4)]) = true
    ∧ TV.RevolveGrid.closedB (TV.RevolveGrid.openSurface 5 2 [(2, 1, 0), (3, 2, 0), (4, 3, 0)]) = false := by
  decide +kernel

/-- **a full turn of a closed profile (annulus, any linestring that returns to its first point away from the
    axis) is closed and consistently wound**, for every profile length and every number of sections: both
    triangles of every profile segment are kept, the wrap-around quad is dropped, the last row of vertices is
    merged into the first -/
theorem C15_revolve_ring_closed (per slices : Nat) (hper : 2 ≤ per) :
    TV.RevolveGrid.Closed (TV.RevolveGrid.ringSurface per slices) :=
  TV.RevolveGrid.ring_closed per slices hper

/-- the faces of that theorem are what the index arithmetic of `revolve` produces when exactly the two triangles
    of the wrap-around quad are dropped -/
theorem C15_revolve_ring_grid_is_code (per slices : Nat) (hper : 2 ≤ per) :
    TV.RevolveGrid.gridFacesR per slices =
      revolveFaces per slices (per * slices) (TV.RevolveGrid.ringKeep per) :=
  TV.RevolveGrid.gridR_eq_revolveFaces per slices hper

/-- **a full turn of an open loop (the profile `torus` passes) is closed and consistently wound**: nothing is
    dropped and nothing merged, the statement is about the face array of the index model itself -/
theorem C15_revolve_torus_closed (per slices : Nat) (hper : 0 < per) :
    TV.RevolveGrid.Closed (revolveFaces per slices (per * slices) (fun _ => true)) :=
  TV.RevolveGrid.torus_closed per slices hper

/-- **a partial turn of an open loop with caps is closed and consistently wound**, for every profile length,
    every number of sections and every cap triangulation that names profile points only and whose directed
    edges are the loop in profile order plus interior edges in opposite pairs.  (On the tree before the repair
    recorded for C15 the quad of the last profile point pointed one section further and this failed.) -/
theorem C15_revolve_loop_open_closed (per slices : Nat) (hper : 0 < per) (T : List TV.RevolveGrid.Face)
    (hT : TV.RevolveGrid.capOkC per T = true) (hR : TV.RevolveGrid.capInRange per T = true) :
    TV.RevolveGrid.Closed (TV.RevolveGrid.openLoopRaw per slices T) :=
  TV.RevolveGrid.loop_open_closed per slices hper T hT hR

/-- non-vacuity, and the index pattern before the repair as a counterexample: with the last quad joined to the
    first point of the slices after (`(i + 1, per + i, per + i + 1)` for `i = per - 1`) a capped half turn of a
    square loop is not closed -/
example : TV.RevolveGrid.capOkC 4 [(0, 1, 2), (0, 2, 3)] = true ∧ TV.RevolveGrid.capInRange 4 [(0, 1, 2), (0, 2, 3)] = true
    ∧ TV.RevolveGrid.closedB (TV.RevolveGrid.openLoopRaw 4 2 [(0, 1, 2), (0, 2, 3)]) = true
    ∧ TV.RevolveGrid.closedB (TV.RevolveGrid.ringSurface 5 3) = true
    ∧ TV.RevolveGrid.closedB (revolveFaces 4 3 12 (fun _ => true)) = true
    ∧ (let old : List Face := (List.range 2).flatMap (fun j => ((List.range 4).flatMap (fun i =>
          [(i, 4 + i, i + 1), (i + 1, 4 + i, 4 + i + 1)])).map
          (fun f => ((f.1 + j * 4) % 12, (f.2.1 + j * 4) % 12, (f.2.2 + j * 4) % 12)))
       TV.RevolveGrid.closedB (old ++ [(0, 1, 2), (0, 2, 3)] ++ [(10, 9, 8), (11, 10, 8)]) = false) := by
  decide +kernel

end TV.C15
