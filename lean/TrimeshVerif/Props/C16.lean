/-
C16 — Convex hulls and bounding volumes contain what they bound.
Property theorems only (soundness of the checkers of Model/Bounds.lean, which the harness runs on the
implementation's real outputs converted to exact rationals); helper lemmas live in Proofs/Bounds.lean.
-/
import TrimeshVerif.Proofs.Bounds
import TrimeshVerif.Model.RevolveGrid
namespace TV.C16
open TV.Query TV.Bounds

/-- **accepted hull contains every input point**: every input point is at most `eps` above every face plane -/
theorem C16_hull_contains (eps : Rat) (pts hv : List P) (hf : List Face) (ts : List Tri)
    (ht : trisOf hv hf = some ts) (h : hullCheck eps pts hv hf = true) :
    ∀ t ∈ ts, ∀ p ∈ pts, below eps t p = true := by
  exact ((hullCheck_iff eps pts hv hf ts ht).mp h).2.1

/-- **hull vertices are input points**, the surface is closed, consistently wound and encloses positive volume -/
theorem C16_hull_valid (eps : Rat) (pts hv : List P) (hf : List Face) (ts : List Tri)
    (ht : trisOf hv hf = some ts) (h : hullCheck eps pts hv hf = true) :
    (∀ v ∈ hv, v ∈ pts) ∧ TV.Topology.isWatertight hf = true ∧
    TV.Topology.isWindingConsistent hf = true ∧ 0 < vol6 ts := by
  obtain ⟨h1, _, h3, h4, h5⟩ := (hullCheck_iff eps pts hv hf ts ht).mp h
  exact ⟨h1, h3, h4, h5⟩

/-- **convexity**: the region below a face plane (within `eps`) is convex, so with the two theorems above
    every point of every segment between input points - hence their whole convex hull - is inside -/
theorem C16_below_convex (eps : Rat) (t : Tri) (p q : P) (s : Rat) (hs0 : 0 ≤ s) (hs1 : s ≤ 1)
    (hp : below eps t p = true) (hq : below eps t q = true) :
    below eps t (lerp p q s) = true := by
  exact below_lerp eps t p q s hs0 hs1 hp hq

/-- **outward winding is what the checker tests**: reversing a face negates the height of every point, so a
    face wound inwards is rejected (at `eps = 0`) as soon as one input point is strictly off its plane on the
    inner side -/
theorem C16_flip_height (a b c p : P) : height (a, c, b) p = - height (a, b, c) p := by
  exact height_flip a b c p

theorem C16_inward_rejected (a b c p : P) (h : height (a, b, c) p < 0) : below 0 (a, c, b) p = false := by
  exact inward_rejected a b c p h

/-- **axis-aligned bounds are exact**: every point is inside and each of the six bounds is attained -/
theorem C16_aabb (pts : List P) (lo hi : P) (h : aabbCheck pts lo hi = true) :
    (∀ p ∈ pts, lo.1 ≤ p.1 ∧ lo.2.1 ≤ p.2.1 ∧ lo.2.2 ≤ p.2.2 ∧ p.1 ≤ hi.1 ∧ p.2.1 ≤ hi.2.1 ∧ p.2.2 ≤ hi.2.2) ∧
    (∃ p ∈ pts, p.1 = lo.1) ∧ (∃ p ∈ pts, p.2.1 = lo.2.1) ∧ (∃ p ∈ pts, p.2.2 = lo.2.2) ∧
    (∃ p ∈ pts, p.1 = hi.1) ∧ (∃ p ∈ pts, p.2.1 = hi.2.1) ∧ (∃ p ∈ pts, p.2.2 = hi.2.2) := by
  exact (aabbCheck_iff pts lo hi).mp h

/-- **oriented box contains the geometry**: the transform maps every point into the reported extents -/
theorem C16_obb_contains (eps : Rat) (pts : List P) (T : Rigid) (ext : P) (h : obbCheck eps pts T ext = true) :
    ∀ p ∈ pts, let q := T.apply p
      absR q.1 ≤ ext.1 / 2 + eps ∧ absR q.2.1 ≤ ext.2.1 / 2 + eps ∧ absR q.2.2 ≤ ext.2.2 / 2 + eps := by
  intro p hp
  exact (inBox_iff eps ext (T.apply p)).mp (obbCheck_imp eps pts T ext h p hp)

/-- an exactly orthonormal transform preserves all distances (rigid) -/
theorem C16_rigid_exact (T : Rigid) (h : T.isExact) (p q : P) :
    dist2 (T.apply p) (T.apply q) = dist2 p q := by
  exact rigid_exact T h p q

/-- **bounding sphere contains every point** -/
theorem C16_sphere_contains (eps : Rat) (pts : List P) (c : P) (r : Rat) (h : sphereCheck eps pts c r = true) :
    ∀ p ∈ pts, dist2 p c ≤ (r + eps) * (r + eps) := by
  exact sphereCheck_imp eps pts c r h

/-- **bounding sphere is minimal**: with an accepted certificate, every ball (any centre `c'`, squared radius
    `R2`) that contains all the points has `R2 ≥ (r - eps)²` -/
theorem C16_sphere_minimal (eps delta : Rat) (pts : List P) (c : P) (r : Rat) (ws : List Rat) (qs : List P)
    (h : sphereMinCheck eps delta pts c r ws qs = true) (c' : P) (R2 : Rat)
    (hall : ∀ p ∈ pts, dist2 p c' ≤ R2) :
    (r - eps) * (r - eps) ≤ R2 := by
  exact sphere_minimal eps delta pts c r ws qs h c' R2 hall

/-- **bounding cylinder contains every point**: `p - c` splits into a part along the axis of length at most
    `h/2 + eps` and a perpendicular part of length at most `r + eps` -/
theorem C16_cyl_contains (eps : Rat) (pts : List P) (c a : P) (r h : Rat)
    (hc : cylCheck eps pts c a r h = true) :
    ∀ p ∈ pts, ∃ (lam : Rat) (u : P), sub p c = add u (smul lam a) ∧ dot u a = 0 ∧
      lam * lam * dot a a ≤ (h / 2 + eps) * (h / 2 + eps) ∧ dot u u ≤ (r + eps) * (r + eps) := by
  exact cylCheck_imp eps pts c a r h hc

/-- **why dropping zero-area simplices opens a hull** (the recorded finding `C16-hull-drops-zero-area-simplices`): a
    closed triangulation in which one side of an edge is split at a point of that edge is closed only through the
    zero-area triangle spanning the split (here `(0, 4, 1)`, vertex 4 on the segment from 0 to 1); with that triangle
    removed - what `convex_hull` does to the degenerate simplices qhull returns for collinear points - three directed
    edges are left without their reverse (`closedB`: every directed edge as often as its reverse) -/
theorem C16_dropping_degenerate_simplex_opens_witness :
    let withSliver : List TV.RevolveGrid.Face := [(0, 1, 2), (4, 0, 3), (1, 4, 3), (0, 4, 1), (1, 3, 2), (0, 2, 3)]
    let dropped : List TV.RevolveGrid.Face := [(0, 1, 2), (4, 0, 3), (1, 4, 3), (1, 3, 2), (0, 2, 3)]
    TV.RevolveGrid.closedB withSliver = true ∧ TV.RevolveGrid.closedB dropped = false := by
  decide +kernel

end TV.C16
