/-
C17 — Copies are faithful and share no mutable state with the original.
Property theorems only; helper lemmas live in Proofs/Alias.lean.
-/
import TrimeshVerif.Proofs.Alias
namespace TV.C17
open TV.Alias

variable {V : Type}

/-- the checker is sound: if it accepts, no cell is reachable from both objects -/
theorem C17_checker_sound (a b : List Cell) (h : disjointB a b = true) : ∀ c, c ∈ a → c ∉ b := by
  sorry

/-- **frame theorem**: if the writable cells reachable from `a` and from `b` are disjoint (what the checker
    establishes on the walked object graphs), then *any* sequence of edits made through `a` — of any
    length — leaves everything `b` reports unchanged, now and for values `b` computes later (all of them
    are functions of `observe`) -/
theorem C17_frame (h : Cell → V) (a b : Obj) (es : List (Cell × V))
    (hd : disjointB a.cells b.cells = true) (he : ∀ e ∈ es, e.1 ∈ a.cells) :
    observe (applyEdits h es) b = observe h b := by
  sorry

/-- and symmetrically for edits made through the copy -/
theorem C17_frame_symm (h : Cell → V) (a b : Obj) (es : List (Cell × V))
    (hd : disjointB a.cells b.cells = true) (he : ∀ e ∈ es, e.1 ∈ b.cells) :
    observe (applyEdits h es) a = observe h a := by
  sorry

/-- **copy specification**: a copy that gives every reachable cell a fresh cell (injective renaming into
    cells not reachable from the original) with the same contents reports exactly what the original
    reports, shares no cell with it, and leaves the original untouched -/
theorem C17_copy_spec (h : Cell → V) (a : Obj) (ren : Cell → Cell)
    (hinj : ∀ c ∈ a.cells, ∀ c' ∈ a.cells, ren c = ren c' → c = c')
    (hfresh : ∀ c ∈ a.cells, ren c ∉ a.cells) :
    observe (copyHeap ren a h) (copyObj ren a) = observe h a ∧
    disjointB a.cells (copyObj ren a).cells = true ∧
    observe (copyHeap ren a h) a = observe h a := by
  sorry

/-- sharing a single cell is enough to leak an edit (why the checker must reject any overlap) -/
theorem C17_shared_cell_leaks :
    let a : Obj := ⟨[1, 2]⟩
    let b : Obj := ⟨[2, 3]⟩
    let h : Cell → Nat := fun _ => 0
    observe (applyEdits h [(2, 7)]) b ≠ observe h b ∧ disjointB a.cells b.cells = false := by
  sorry

end TV.C17
