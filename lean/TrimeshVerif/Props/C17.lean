/-
C17 — Copies are faithful and share no mutable state with the original.
Property theorems only; helper lemmas live in Proofs/Alias.lean.
-/
import TrimeshVerif.Proofs.Alias
namespace TV.C17
open TV.Alias

variable {V : Type}

/-- the checker is sound: if it accepts, no cell is reachable from both objects -/
theorem C17_checker_sound (a b : List Cell) (h : disjointB a b = true) : ∀ c, c ∈ a → c ∉ b :=
  disjointB_sound h

/-- **frame theorem**: if the writable cells reachable from `a` and from `b` are disjoint (what the checker
    establishes on the walked object graphs), then *any* sequence of edits made through `a` — of any
    length — leaves everything `b` reports unchanged, now and for values `b` computes later (all of them
    are functions of `observe`) -/
theorem C17_frame (h : Cell → V) (a b : Obj) (es : List (Cell × V))
    (hd : disjointB a.cells b.cells = true) (he : ∀ e ∈ es, e.1 ∈ a.cells) :
    observe (applyEdits h es) b = observe h b :=
  observe_applyEdits_of_avoid h b es (fun e hm hb => disjointB_sound hd e.1 (he e hm) hb)

/-- and symmetrically for edits made through the copy -/
theorem C17_frame_symm (h : Cell → V) (a b : Obj) (es : List (Cell × V))
    (hd : disjointB a.cells b.cells = true) (he : ∀ e ∈ es, e.1 ∈ b.cells) :
    observe (applyEdits h es) a = observe h a :=
  observe_applyEdits_of_avoid h a es (fun e hm ha => disjointB_sound hd e.1 ha (he e hm))

/-- **copy specification**: a copy that gives every reachable cell a fresh cell (injective renaming into
    cells not reachable from the original) with the same contents reports exactly what the original
    reports, shares no cell with it, and leaves the original untouched -/
theorem C17_copy_spec (h : Cell → V) (a : Obj) (ren : Cell → Cell)
    (hinj : ∀ c ∈ a.cells, ∀ c' ∈ a.cells, ren c = ren c' → c = c')
    (hfresh : ∀ c ∈ a.cells, ren c ∉ a.cells) :
    observe (copyHeap ren a h) (copyObj ren a) = observe h a ∧
    disjointB a.cells (copyObj ren a).cells = true ∧
    observe (copyHeap ren a h) a = observe h a := by
  refine ⟨?_, ?_, ?_⟩
  · simp only [observe, copyObj, List.map_map]
    apply List.map_congr_left
    intro c hc
    exact copyHeap_ren h a ren hinj c hc
  · rw [disjointB_iff]
    intro c hc hmem
    simp only [copyObj, List.mem_map] at hmem
    obtain ⟨c', hc', hren⟩ := hmem
    exact hfresh c' hc' (hren ▸ hc)
  · simp only [observe]
    apply List.map_congr_left
    intro x hx
    exact copyHeap_of_not_fresh h a ren x (fun c hc hren => hfresh c hc (hren ▸ hx))

/-- sharing a single cell is enough to leak an edit (why the checker must reject any overlap) -/
theorem C17_shared_cell_leaks :
    let a : Obj := ⟨[1, 2]⟩
    let b : Obj := ⟨[2, 3]⟩
    let h : Cell → Nat := fun _ => 0
    observe (applyEdits h [(2, 7)]) b ≠ observe h b ∧ disjointB a.cells b.cells = false := by
  decide

end TV.C17
