/-
C18 — Repair and subdivision keep the surface and restore validity.
Property theorems only; helper lemmas live in Proofs/Remesh.lean.
Geometry over any field of characteristic zero; index bookkeeping over Nat with an arbitrary symmetric
midpoint numbering (one new vertex per undirected edge, as `unique_rows(sorted edges)` provides).
-/
import TrimeshVerif.Proofs.Remesh
import TrimeshVerif.Proofs.GeomRat
import TrimeshVerif.Proofs.Winding
import TrimeshVerif.Proofs.ToSize
import TrimeshVerif.Generated.C18Table
namespace TV.C18
open TV.Mat3 TV.Moments TV.Affine TV.Remesh

variable {K : Type} [Field K] [CharZero K]

/-- each of the four children has a quarter of the parent's area vector: same plane, same orientation,
    a quarter of the area — so the total area of the surface is preserved exactly -/
theorem C18_children_area (a b c : V3 K) :
    ∀ t ∈ children a b c, smul 4 (areaVec t) = areaVec (a, b, c) := by
  exact children_area a b c

/-- the exact moments (volume, first and second moments) of the four children add up to the parent's:
    volume, centre of mass and inertia of the solid are preserved -/
theorem C18_children_moments (a b c : V3 K) (i : Nat) (hi : i < 10) :
    ((children a b c).map (fun t => (moments t).getD i 0)).sum = (moments (a, b, c)).getD i 0 := by
  exact children_moments a b c i hi

/-- **watertightness and winding are preserved**: if every directed edge of the mesh is matched by its
    reverse, the same holds after subdividing every face, for any symmetric midpoint numbering -/
theorem C18_subdivide_closed (mid : Nat → Nat → Nat) (hsym : ∀ a b, mid a b = mid b a)
    (fs : List Face) (h : Closed fs) : Closed (subdivideFaces mid fs) := by
  exact subdivide_closed mid hsym fs h

/-- counts: four times the faces; with `V` vertices, `E` undirected edges and `F` faces before, there are
    `V + E` vertices, `2E + 3F` edges and `4F` faces after, so the Euler number is unchanged -/
theorem C18_counts (mid : Nat → Nat → Nat) (fs : List Face) (V E : Nat) :
    (subdivideFaces mid fs).length = 4 * fs.length ∧
    ((V + E : Int) - (2 * E + 3 * fs.length : Int) + (4 * fs.length : Int) = (V : Int) - E + fs.length) := by
  refine ⟨subdivide_length mid fs, ?_⟩
  omega

/-- the original corner stays a corner: every original vertex index is still used (by the first three
    children) and the children only use original corners and edge midpoints -/
theorem C18_children_corners (mid : Nat → Nat → Nat) (f : Face) :
    (childFaces mid f).map (·.1) ++ (childFaces mid f).map (·.2.1) ++ (childFaces mid f).map (·.2.2)
      = [f.1, mid f.1 f.2.1, mid f.2.2 f.1, mid f.1 f.2.1,
         mid f.1 f.2.1, f.2.1, mid f.2.1 f.2.2, mid f.2.1 f.2.2,
         mid f.2.2 f.1, mid f.2.1 f.2.2, f.2.2, mid f.2.2 f.1] := by
  rfl

/-- an edge of a child is half as long as a parallel edge of the parent (squared lengths: a quarter),
    which is why repeated subdivision reaches any positive edge bound -/
theorem C18_child_edge_quarter (a b c : V3 K) :
    dot (sub (midpoint a b) a) (sub (midpoint a b) a) * 4 = dot (sub b a) (sub b a) ∧
    dot (sub (midpoint a b) (midpoint c a)) (sub (midpoint a b) (midpoint c a)) * 4 = dot (sub b c) (sub b c) := by
  exact child_edge_quarter a b c

/-- reversing a face negates its area vector and its volume contribution: re-winding never moves a
    vertex or changes the unordered triangle, and a body is outward wound iff its signed volume is positive -/
theorem C18_reverse_face (a b c : V3 K) :
    areaVec (a, c, b) = smul (-1) (areaVec (a, b, c)) ∧ vol a c b = - vol a b c := by
  exact reverse_face a b c


/-! ### the executable rational model run by the driver (Model/GeomRat.lean) -/
section rat
open TV.GeomRat

/-- what the driver evaluates is the generic definition at ℚ (by `rfl`) -/
theorem C18_rat_model_is_generic (a b c : TV.GeomRat.V) (mid : Nat → Nat → Nat) (f : TV.GeomRat.Face) :
    childrenR a b c = TV.Remesh.children a b c ∧ childFacesN mid f = TV.Remesh.childFaces mid f :=
  ⟨childrenR_eq a b c, childFacesN_eq mid f⟩

theorem C18_rat_children (a b c : TV.GeomRat.V) :
    (∀ t ∈ childrenR a b c, smulV 4 (areaVecR t) = areaVecR (a, b, c)) ∧
    meshVolR (childrenR a b c) = volR a b c :=
  rat_children a b c

/-- subdividing every face of any triangle list keeps the signed volume exactly -/
theorem C18_rat_subdivide_volume (ts : List TV.GeomRat.Tri) : meshVolR (subdivideR ts) = meshVolR ts :=
  rat_subdivide_volume ts
end rat


/-! ### fix_winding: the traversal -/

section winding
open TV.Winding

/-- **`fix_winding` is correct and order independent**: take the adjacent face pairs `adj`, for each pair
    whether the shared edge runs the same way in both faces (`w`, symmetric), and *any* list of tree edges
    in search order (`treeOrder`: every child is new) that lie in `adj` and connect the two faces of every
    adjacent pair.  If the surface is orientable at all (some choice of reversals `y` makes every adjacent
    pair consistent) then the reversals the traversal makes - look at the pair, reverse the child when the
    shared edge is not opposed - leave every adjacent pair consistent, whatever the start faces, the order
    of the components and the order of the edges handed out -/
theorem C18_fix_winding (w : SameDir) (adj tree : List (Nat × Nat)) (h : treeOrder tree [] = true)
    (hspan : ∀ e ∈ adj, TConn tree e.1 e.2)
    (y : Flips) (hy : ∀ e ∈ adj, inconsistent w y e.1 e.2 = false)
    (hsub : ∀ e ∈ tree, e ∈ adj ∨ (e.2, e.1) ∈ adj) (hsym : ∀ f g, w f g = w g f) :
    ∀ e ∈ adj, inconsistent w (traverse w tree) e.1 e.2 = false :=
  traverse_consistent w adj tree h hspan y hy hsub hsym

/-- two consistent windings of the same surface differ by reversing whole connected components (so the
    result of `fix_winding` is determined up to the orientation of each body, which `fix_inversion` then
    settles by the sign of the volume) -/
theorem C18_winding_unique_up_to_components (w : SameDir) (adj : List (Nat × Nat)) (x1 x2 : Flips)
    (h1 : ∀ e ∈ adj, inconsistent w x1 e.1 e.2 = false) (h2 : ∀ e ∈ adj, inconsistent w x2 e.1 e.2 = false) :
    ∀ e ∈ adj, bxor (x1 e.1) (x2 e.1) = bxor (x1 e.2) (x2 e.2) :=
  traversals_differ_by_components w adj x1 x2 h1 h2

/-- what the driver runs (flips kept as a list) is the traversal of `C18_fix_winding` -/
theorem C18_driver_traversal (w : SameDir) (n : Nat) (tree : List (Nat × Nat)) (hn : ∀ e ∈ tree, e.2 < n) :
    ∀ i, look (traverseL w n tree) i = traverse w tree i :=
  traverseL_eq w n tree hn

/-- non-vacuity: a tetrahedron with face 2 reversed (every pair involving face 2 runs the same way);
    a search tree from face 0 satisfies the hypotheses and the traversal reverses exactly face 2 -/
example :
    let adj := [(0, 1), (0, 2), (0, 3), (1, 2), (1, 3), (2, 3)]
    let w := sameDirOf [((0, 2), true), ((1, 2), true), ((2, 3), true)]
    let tree := [(0, 1), (0, 2), (0, 3)]
    treeOrder tree [] = true ∧ allConsistent w (traverse w tree) adj = true ∧
      (List.range 4).map (traverse w tree) = [false, false, true, false] := by decide

end winding


/-! ### subdivide_to_size -/

section tosize
open TV.ToSize
variable {F : Type} [Field F] [LinearOrder F] [IsStrictOrderedRing F]

/-- **size-bounded subdivision leaves no edge longer than the bound, and ends**: run one face through the loop of
    `subdivide_to_size` (a face with an edge longer than the bound is replaced by its four children, at most `fuel =
    max_iter` times; lengths compared as squares).  Every triangle of a successful result has all edges within the
    bound; every child's longest edge is exactly half its parent's; and the loop succeeds - no "max_iter exceeded" -
    whenever the longest edge is at most `2^max_iter` times the bound -/
theorem C18_to_size (m2 : F) (hm : 0 ≤ m2) (fuel : Nat) (t : TV.ToSize.Tri F) :
    (∀ ts, toSize m2 fuel t = some ts → ∀ t' ∈ ts, maxEdge2 t' ≤ m2) ∧
    (∀ ch ∈ TV.Remesh.children t.1 t.2.1 t.2.2, maxEdge2 ch * 4 = maxEdge2 t) ∧
    (maxEdge2 t ≤ m2 * 4 ^ fuel → ∃ ts, toSize m2 fuel t = some ts) :=
  ⟨fun ts h t' ht' => toSize_small m2 fuel t ts h t' ht', fun ch hch => child_maxEdge2 t.1 t.2.1 t.2.2 ch hch,
   fun h => toSize_succeeds m2 hm fuel t h⟩

/-- what the driver runs on the harness's triangles is the subdivision of `C18_to_size` at ℚ -/
theorem C18_rat_to_size (m2 : Rat) (fuel : Nat) (t : TV.GeomRat.Tri) :
    TV.GeomRat.toSizeR m2 fuel t = toSize m2 fuel t :=
  TV.GeomRat.toSizeR_eq m2 fuel t

/-- non-vacuity: a right triangle with legs 4 and bound 2 (squared: 4) needs two rounds and yields 16 triangles -/
example : (toSize (4 : ℚ) 2 (((0, 0, 0), (4, 0, 0), (0, 4, 0)) : TV.ToSize.Tri ℚ)).map List.length = some 16 ∧
    toSize (4 : ℚ) 1 (((0, 0, 0), (4, 0, 0), (0, 4, 0)) : TV.ToSize.Tri ℚ) = none := by
  constructor <;> decide +kernel

end tosize

section source_pattern

/-- column `k` of a face row -/
def corner (f : Face) : Nat → Nat
  | 0 => f.1
  | 1 => f.2.1
  | _ => f.2.2

/-- one row of `np.column_stack([...])` for face `f`: a face column, or the midpoint of the edge that
    `faces_to_edges` lists at position `k` (its two end-point columns are `cols[2k]`, `cols[2k+1]`) -/
def stackedRow (pat : List (Bool × Nat)) (cols : List Nat) (mid : Nat → Nat → Nat) (f : Face) : List Nat :=
  pat.map (fun p => if p.1 then mid (corner f (cols.getD (2 * p.2) 0)) (corner f (cols.getD (2 * p.2 + 1) 0))
                    else corner f p.2)

/-- `.reshape((-1, 3))` -/
def triples : List Nat → List Face
  | a :: b :: c :: t => (a, b, c) :: triples t
  | _ => []

/-- **(G) the child faces `remesh.subdivide` stacks are the model's**: the column pattern of the
    `np.column_stack` call and the edge order of `geometry.faces_to_edges`, both read from the current source by
    `ast`, produce for every face and every midpoint numbering exactly `childFaces` - the four children
    `[a, m_ab, m_ca], [m_ab, b, m_bc], [m_ca, m_bc, c], [m_ab, m_bc, m_ca]` every C18 subdivision theorem is about -/
theorem C18_child_pattern_of_source (mid : Nat → Nat → Nat) (f : Face) :
    triples (stackedRow TV.Generated.C18.childPattern TV.Generated.C18.edgeColumns mid f) = childFaces mid f := rfl

end source_pattern

end TV.C18
