/-
C19 — Rotation and transform representations convert consistently.
Property theorems only.  Every definition in `TV.Generated.C19` is traced from the real functions of
`trimesh/transformations.py` on every run; angles are (cos, sin) pairs with `c² + s² = 1` as a hypothesis,
so the theorems hold for all angles (0, ±π/2, ±π and gimbal configurations included), all unit axes,
all non-zero quaternions and all 24 Euler conventions, over any field (`2 ≠ 0` for quaternion products).
-/
import TrimeshVerif.Proofs.Rotation
import TrimeshVerif.Generated.C19Trace
import TrimeshVerif.Generated.C19Inverse
namespace TV.C19
open TV.Mat3 TV.Generated.C19

variable {K : Type} [Field K]

/-! ### axis-angle -/

/-- `rotation_matrix(angle, u)` is a proper rotation for every angle and unit axis -/
theorem C19_rotation_matrix_is_rotation (c s u1 u2 u3 : K) (hcs : c ^ 2 + s ^ 2 = 1)
    (hu : u1 ^ 2 + u2 ^ 2 + u3 ^ 2 = 1) : (rot c s u1 u2 u3).IsRotation := by
  have e : ∀ a b : K, rot a b u1 u2 u3 = rotM a b u1 u2 u3 := fun a b => by
    apply M3.ext' <;> simp only [rot, rotM] <;> ring
  rw [e]; exact rotM_isRotation c s u1 u2 u3 hcs hu

/-- it leaves its axis fixed -/
theorem C19_rotation_fixes_axis (c s u1 u2 u3 : K) (hcs : c ^ 2 + s ^ 2 = 1)
    (hu : u1 ^ 2 + u2 ^ 2 + u3 ^ 2 = 1) : (rot c s u1 u2 u3).apply (u1, u2, u3) = (u1, u2, u3) := by
  have e : ∀ a b : K, rot a b u1 u2 u3 = rotM a b u1 u2 u3 := fun a b => by
    apply M3.ext' <;> simp only [rot, rotM] <;> ring
  have _ := hcs  -- (not needed: the axis is fixed for every (c, s))
  rw [e]; exact rotM_apply_axis c s u1 u2 u3 hu

/-- rotating about a point leaves that point fixed: `R p + t = p` -/
theorem C19_rotation_about_point_fixes_it (c s u1 u2 u3 p1 p2 p3 : K) :
    let Rp := (rot c s u1 u2 u3).apply (p1, p2, p3)
    (Rp.1 + rotPointT0 c s u1 u2 u3 p1 p2 p3, Rp.2.1 + rotPointT1 c s u1 u2 u3 p1 p2 p3,
     Rp.2.2 + rotPointT2 c s u1 u2 u3 p1 p2 p3) = (p1, p2, p3) := by
  intro Rp
  simp only [Rp, M3.apply, rot, rotPointT0, rotPointT1, rotPointT2, Prod.mk.injEq]
  refine ⟨?_, ?_, ?_⟩ <;> ring

/-! ### quaternions (`t` is the square of the normalisation factor: `t · |q|² = 2`) -/

/-- `quaternion_matrix(q)` is a proper rotation for every non-zero quaternion -/
theorem C19_quaternion_matrix_is_rotation (t w x y z : K) (ht : t * (w ^ 2 + x ^ 2 + y ^ 2 + z ^ 2) = 2) :
    (quatM t w x y z).IsRotation := by
  have eq : ∀ t w x y z : K, quatM t w x y z = qM t w x y z := fun t w x y z => by
    apply M3.ext' <;> simp only [quatM, qM] <;> ring
  rw [eq]; exact qM_isRotation t w x y z ht

/-- `q` and `-q` give the same matrix -/
theorem C19_quaternion_sign (t w x y z : K) : quatM t (-w) (-x) (-y) (-z) = quatM t w x y z := by
  have eq : ∀ t w x y z : K, quatM t w x y z = qM t w x y z := fun t w x y z => by
    apply M3.ext' <;> simp only [quatM, qM] <;> ring
  rw [eq, eq]; exact qM_neg t w x y z

/-- `quaternion_multiply` is multiplicative on matrices: `M(q1 * q0) = M(q1) · M(q0)`
    (in characteristic 2 the normalisation `t · |q|² = 2` degenerates — counterexample over `ZMod 2`:
    `t1 = 1, q1 = (1,1,0,0), t0 = 0, q0 = 0` — hence the hypothesis `2 ≠ 0`, true of ℝ and ℚ) -/
theorem C19_quaternion_multiply (h2 : (2 : K) ≠ 0) (t1 w1 x1 y1 z1 t0 w0 x0 y0 z0 : K)
    (h1 : t1 * (w1 ^ 2 + x1 ^ 2 + y1 ^ 2 + z1 ^ 2) = 2) (h0 : t0 * (w0 ^ 2 + x0 ^ 2 + y0 ^ 2 + z0 ^ 2) = 2) :
    quatM (t1 * t0 / 2) (quatMul0 w1 x1 y1 z1 w0 x0 y0 z0) (quatMul1 w1 x1 y1 z1 w0 x0 y0 z0)
        (quatMul2 w1 x1 y1 z1 w0 x0 y0 z0) (quatMul3 w1 x1 y1 z1 w0 x0 y0 z0)
      = quatM t1 w1 x1 y1 z1 * quatM t0 w0 x0 y0 z0 := by
  have eq : ∀ t w x y z : K, quatM t w x y z = qM t w x y z := fun t w x y z => by
    apply M3.ext' <;> simp only [quatM, qM] <;> ring
  have e0 : quatMul0 w1 x1 y1 z1 w0 x0 y0 z0 = (Q.mul ⟨w1, x1, y1, z1⟩ ⟨w0, x0, y0, z0⟩).w := by
    simp only [quatMul0, Q.mul]; ring
  have e1 : quatMul1 w1 x1 y1 z1 w0 x0 y0 z0 = (Q.mul ⟨w1, x1, y1, z1⟩ ⟨w0, x0, y0, z0⟩).x := by
    simp only [quatMul1, Q.mul]; ring
  have e2 : quatMul2 w1 x1 y1 z1 w0 x0 y0 z0 = (Q.mul ⟨w1, x1, y1, z1⟩ ⟨w0, x0, y0, z0⟩).y := by
    simp only [quatMul2, Q.mul]; ring
  have e3 : quatMul3 w1 x1 y1 z1 w0 x0 y0 z0 = (Q.mul ⟨w1, x1, y1, z1⟩ ⟨w0, x0, y0, z0⟩).z := by
    simp only [quatMul3, Q.mul]; ring
  rw [eq, eq, eq, e0, e1, e2, e3]
  exact qM_mul h2 t1 w1 x1 y1 z1 t0 w0 x0 y0 z0 h1 h0

/-- the quaternion `(cos(a/2), u·sin(a/2))` of an axis-angle pair gives `rotation_matrix(a, u)`
    (half-angle symbols `ch, sh`; `cos a = ch² − sh²`, `sin a = 2·sh·ch`) -/
theorem C19_axis_angle_quaternion (ch sh u1 u2 u3 : K) (hcs : ch ^ 2 + sh ^ 2 = 1)
    (hu : u1 ^ 2 + u2 ^ 2 + u3 ^ 2 = 1) :
    quatM 2 ch (u1 * sh) (u2 * sh) (u3 * sh) = rot (ch ^ 2 - sh ^ 2) (2 * sh * ch) u1 u2 u3 := by
  have e : ∀ a b : K, rot a b u1 u2 u3 = rotM a b u1 u2 u3 := fun a b => by
    apply M3.ext' <;> simp only [rot, rotM] <;> ring
  have eq : ∀ t w x y z : K, quatM t w x y z = qM t w x y z := fun t w x y z => by
    apply M3.ext' <;> simp only [quatM, qM] <;> ring
  rw [e, eq]; exact qM_axis_angle ch sh u1 u2 u3 hcs hu

/-! ### the 24 Euler conventions: `euler_matrix` is the product of the three elementary rotations in the
order and frame the convention's name says (static frame `s`: later rotations multiply on the left;
rotating frame `r`: on the right) -/

theorem C19_euler_rxyx (c_i s_i c_j s_j c_k s_k : K) :
    euler_rxyx c_i s_i c_j s_j c_k s_k = Rx c_i s_i * (Ry c_j s_j) * (Rx c_k s_k) := by
  apply M3.ext' <;> simp only [euler_rxyx, Rx, Ry, M3.mul_def, M3.mul] <;> ring

theorem C19_euler_rxyz (c_i s_i c_j s_j c_k s_k : K) :
    euler_rxyz c_i s_i c_j s_j c_k s_k = Rx c_i s_i * (Ry c_j s_j) * (Rz c_k s_k) := by
  apply M3.ext' <;> simp only [euler_rxyz, Rx, Ry, Rz, M3.mul_def, M3.mul] <;> ring

theorem C19_euler_rxzx (c_i s_i c_j s_j c_k s_k : K) :
    euler_rxzx c_i s_i c_j s_j c_k s_k = Rx c_i s_i * (Rz c_j s_j) * (Rx c_k s_k) := by
  apply M3.ext' <;> simp only [euler_rxzx, Rx, Rz, M3.mul_def, M3.mul] <;> ring

theorem C19_euler_rxzy (c_i s_i c_j s_j c_k s_k : K) :
    euler_rxzy c_i s_i c_j s_j c_k s_k = Rx c_i s_i * (Rz c_j s_j) * (Ry c_k s_k) := by
  apply M3.ext' <;> simp only [euler_rxzy, Rx, Ry, Rz, M3.mul_def, M3.mul] <;> ring

theorem C19_euler_ryxy (c_i s_i c_j s_j c_k s_k : K) :
    euler_ryxy c_i s_i c_j s_j c_k s_k = Ry c_i s_i * (Rx c_j s_j) * (Ry c_k s_k) := by
  apply M3.ext' <;> simp only [euler_ryxy, Rx, Ry, M3.mul_def, M3.mul] <;> ring

theorem C19_euler_ryxz (c_i s_i c_j s_j c_k s_k : K) :
    euler_ryxz c_i s_i c_j s_j c_k s_k = Ry c_i s_i * (Rx c_j s_j) * (Rz c_k s_k) := by
  apply M3.ext' <;> simp only [euler_ryxz, Rx, Ry, Rz, M3.mul_def, M3.mul] <;> ring

theorem C19_euler_ryzx (c_i s_i c_j s_j c_k s_k : K) :
    euler_ryzx c_i s_i c_j s_j c_k s_k = Ry c_i s_i * (Rz c_j s_j) * (Rx c_k s_k) := by
  apply M3.ext' <;> simp only [euler_ryzx, Rx, Ry, Rz, M3.mul_def, M3.mul] <;> ring

theorem C19_euler_ryzy (c_i s_i c_j s_j c_k s_k : K) :
    euler_ryzy c_i s_i c_j s_j c_k s_k = Ry c_i s_i * (Rz c_j s_j) * (Ry c_k s_k) := by
  apply M3.ext' <;> simp only [euler_ryzy, Ry, Rz, M3.mul_def, M3.mul] <;> ring

theorem C19_euler_rzxy (c_i s_i c_j s_j c_k s_k : K) :
    euler_rzxy c_i s_i c_j s_j c_k s_k = Rz c_i s_i * (Rx c_j s_j) * (Ry c_k s_k) := by
  apply M3.ext' <;> simp only [euler_rzxy, Rx, Ry, Rz, M3.mul_def, M3.mul] <;> ring

theorem C19_euler_rzxz (c_i s_i c_j s_j c_k s_k : K) :
    euler_rzxz c_i s_i c_j s_j c_k s_k = Rz c_i s_i * (Rx c_j s_j) * (Rz c_k s_k) := by
  apply M3.ext' <;> simp only [euler_rzxz, Rx, Rz, M3.mul_def, M3.mul] <;> ring

theorem C19_euler_rzyx (c_i s_i c_j s_j c_k s_k : K) :
    euler_rzyx c_i s_i c_j s_j c_k s_k = Rz c_i s_i * (Ry c_j s_j) * (Rx c_k s_k) := by
  apply M3.ext' <;> simp only [euler_rzyx, Rx, Ry, Rz, M3.mul_def, M3.mul] <;> ring

theorem C19_euler_rzyz (c_i s_i c_j s_j c_k s_k : K) :
    euler_rzyz c_i s_i c_j s_j c_k s_k = Rz c_i s_i * (Ry c_j s_j) * (Rz c_k s_k) := by
  apply M3.ext' <;> simp only [euler_rzyz, Ry, Rz, M3.mul_def, M3.mul] <;> ring

theorem C19_euler_sxyx (c_i s_i c_j s_j c_k s_k : K) :
    euler_sxyx c_i s_i c_j s_j c_k s_k = Rx c_k s_k * (Ry c_j s_j) * (Rx c_i s_i) := by
  apply M3.ext' <;> simp only [euler_sxyx, Rx, Ry, M3.mul_def, M3.mul] <;> ring

theorem C19_euler_sxyz (c_i s_i c_j s_j c_k s_k : K) :
    euler_sxyz c_i s_i c_j s_j c_k s_k = Rz c_k s_k * (Ry c_j s_j) * (Rx c_i s_i) := by
  apply M3.ext' <;> simp only [euler_sxyz, Rx, Ry, Rz, M3.mul_def, M3.mul] <;> ring

theorem C19_euler_sxzx (c_i s_i c_j s_j c_k s_k : K) :
    euler_sxzx c_i s_i c_j s_j c_k s_k = Rx c_k s_k * (Rz c_j s_j) * (Rx c_i s_i) := by
  apply M3.ext' <;> simp only [euler_sxzx, Rx, Rz, M3.mul_def, M3.mul] <;> ring

theorem C19_euler_sxzy (c_i s_i c_j s_j c_k s_k : K) :
    euler_sxzy c_i s_i c_j s_j c_k s_k = Ry c_k s_k * (Rz c_j s_j) * (Rx c_i s_i) := by
  apply M3.ext' <;> simp only [euler_sxzy, Rx, Ry, Rz, M3.mul_def, M3.mul] <;> ring

theorem C19_euler_syxy (c_i s_i c_j s_j c_k s_k : K) :
    euler_syxy c_i s_i c_j s_j c_k s_k = Ry c_k s_k * (Rx c_j s_j) * (Ry c_i s_i) := by
  apply M3.ext' <;> simp only [euler_syxy, Rx, Ry, M3.mul_def, M3.mul] <;> ring

theorem C19_euler_syxz (c_i s_i c_j s_j c_k s_k : K) :
    euler_syxz c_i s_i c_j s_j c_k s_k = Rz c_k s_k * (Rx c_j s_j) * (Ry c_i s_i) := by
  apply M3.ext' <;> simp only [euler_syxz, Rx, Ry, Rz, M3.mul_def, M3.mul] <;> ring

theorem C19_euler_syzx (c_i s_i c_j s_j c_k s_k : K) :
    euler_syzx c_i s_i c_j s_j c_k s_k = Rx c_k s_k * (Rz c_j s_j) * (Ry c_i s_i) := by
  apply M3.ext' <;> simp only [euler_syzx, Rx, Ry, Rz, M3.mul_def, M3.mul] <;> ring

theorem C19_euler_syzy (c_i s_i c_j s_j c_k s_k : K) :
    euler_syzy c_i s_i c_j s_j c_k s_k = Ry c_k s_k * (Rz c_j s_j) * (Ry c_i s_i) := by
  apply M3.ext' <;> simp only [euler_syzy, Ry, Rz, M3.mul_def, M3.mul] <;> ring

theorem C19_euler_szxy (c_i s_i c_j s_j c_k s_k : K) :
    euler_szxy c_i s_i c_j s_j c_k s_k = Ry c_k s_k * (Rx c_j s_j) * (Rz c_i s_i) := by
  apply M3.ext' <;> simp only [euler_szxy, Rx, Ry, Rz, M3.mul_def, M3.mul] <;> ring

theorem C19_euler_szxz (c_i s_i c_j s_j c_k s_k : K) :
    euler_szxz c_i s_i c_j s_j c_k s_k = Rz c_k s_k * (Rx c_j s_j) * (Rz c_i s_i) := by
  apply M3.ext' <;> simp only [euler_szxz, Rx, Rz, M3.mul_def, M3.mul] <;> ring

theorem C19_euler_szyx (c_i s_i c_j s_j c_k s_k : K) :
    euler_szyx c_i s_i c_j s_j c_k s_k = Rx c_k s_k * (Ry c_j s_j) * (Rz c_i s_i) := by
  apply M3.ext' <;> simp only [euler_szyx, Rx, Ry, Rz, M3.mul_def, M3.mul] <;> ring

theorem C19_euler_szyz (c_i s_i c_j s_j c_k s_k : K) :
    euler_szyz c_i s_i c_j s_j c_k s_k = Rz c_k s_k * (Ry c_j s_j) * (Rz c_i s_i) := by
  apply M3.ext' <;> simp only [euler_szyz, Ry, Rz, M3.mul_def, M3.mul] <;> ring

/-- hence every produced Euler matrix is a proper rotation (shown for all conventions through the
    elementary factors) -/
theorem C19_elementary_rotations (c s : K) (h : c ^ 2 + s ^ 2 = 1) :
    (Rx c s).IsRotation ∧ (Ry c s).IsRotation ∧ (Rz c s).IsRotation := by
  exact ⟨Rx_isRotation c s h, Ry_isRotation c s h, Rz_isRotation c s h⟩

/-- products of proper rotations are proper rotations -/
theorem C19_rotation_mul (a b : M3 K) (ha : a.IsRotation) (hb : b.IsRotation) : (a * b).IsRotation := by
  exact ha.mul hb

/-- closing step of the `quaternion_from_euler` theorems: the traced quaternion is (componentwise, as a
    relation-free polynomial identity on the matrix entries) the product of three elementary half-angle
    quaternions -/
local macro "qfe_close" d0:ident d1:ident d2:ident d3:ident : tactic => `(tactic| (
  apply M3.ext' <;>
  simp only [quatM, $d0:ident, $d1:ident, $d2:ident, $d3:ident, UQ.rot, UQ.mul_val, UQ.ex_val, UQ.ey_val,
    UQ.ez_val, Q.rot, Q.mul, qM] <;> ring))

/-! ### `quaternion_from_euler` agrees with `euler_matrix` in every convention
(half-angle symbols: `c = ch² − sh²`, `s = 2·sh·ch`) -/

theorem C19_quaternion_from_euler_rxyx (c_ih s_ih c_jh s_jh c_kh s_kh : K)
    (hi : c_ih ^ 2 + s_ih ^ 2 = 1) (hj : c_jh ^ 2 + s_jh ^ 2 = 1) (hk : c_kh ^ 2 + s_kh ^ 2 = 1) :
    quatM 2 (qfe_rxyx_0 c_ih s_ih c_jh s_jh c_kh s_kh) (qfe_rxyx_1 c_ih s_ih c_jh s_jh c_kh s_kh)
        (qfe_rxyx_2 c_ih s_ih c_jh s_jh c_kh s_kh) (qfe_rxyx_3 c_ih s_ih c_jh s_jh c_kh s_kh)
      = euler_rxyx (c_ih ^ 2 - s_ih ^ 2) (2 * s_ih * c_ih) (c_jh ^ 2 - s_jh ^ 2) (2 * s_jh * c_jh)
          (c_kh ^ 2 - s_kh ^ 2) (2 * s_kh * c_kh) := by
  rw [C19_euler_rxyx, ← UQ.rot_ex hi, ← UQ.rot_ey hj, ← UQ.rot_ex hk, ← UQ.rot_mul, ← UQ.rot_mul]
  qfe_close qfe_rxyx_0 qfe_rxyx_1 qfe_rxyx_2 qfe_rxyx_3

theorem C19_quaternion_from_euler_rxyz (c_ih s_ih c_jh s_jh c_kh s_kh : K)
    (hi : c_ih ^ 2 + s_ih ^ 2 = 1) (hj : c_jh ^ 2 + s_jh ^ 2 = 1) (hk : c_kh ^ 2 + s_kh ^ 2 = 1) :
    quatM 2 (qfe_rxyz_0 c_ih s_ih c_jh s_jh c_kh s_kh) (qfe_rxyz_1 c_ih s_ih c_jh s_jh c_kh s_kh)
        (qfe_rxyz_2 c_ih s_ih c_jh s_jh c_kh s_kh) (qfe_rxyz_3 c_ih s_ih c_jh s_jh c_kh s_kh)
      = euler_rxyz (c_ih ^ 2 - s_ih ^ 2) (2 * s_ih * c_ih) (c_jh ^ 2 - s_jh ^ 2) (2 * s_jh * c_jh)
          (c_kh ^ 2 - s_kh ^ 2) (2 * s_kh * c_kh) := by
  rw [C19_euler_rxyz, ← UQ.rot_ex hi, ← UQ.rot_ey hj, ← UQ.rot_ez hk, ← UQ.rot_mul, ← UQ.rot_mul]
  qfe_close qfe_rxyz_0 qfe_rxyz_1 qfe_rxyz_2 qfe_rxyz_3

theorem C19_quaternion_from_euler_rxzx (c_ih s_ih c_jh s_jh c_kh s_kh : K)
    (hi : c_ih ^ 2 + s_ih ^ 2 = 1) (hj : c_jh ^ 2 + s_jh ^ 2 = 1) (hk : c_kh ^ 2 + s_kh ^ 2 = 1) :
    quatM 2 (qfe_rxzx_0 c_ih s_ih c_jh s_jh c_kh s_kh) (qfe_rxzx_1 c_ih s_ih c_jh s_jh c_kh s_kh)
        (qfe_rxzx_2 c_ih s_ih c_jh s_jh c_kh s_kh) (qfe_rxzx_3 c_ih s_ih c_jh s_jh c_kh s_kh)
      = euler_rxzx (c_ih ^ 2 - s_ih ^ 2) (2 * s_ih * c_ih) (c_jh ^ 2 - s_jh ^ 2) (2 * s_jh * c_jh)
          (c_kh ^ 2 - s_kh ^ 2) (2 * s_kh * c_kh) := by
  rw [C19_euler_rxzx, ← UQ.rot_ex hi, ← UQ.rot_ez hj, ← UQ.rot_ex hk, ← UQ.rot_mul, ← UQ.rot_mul]
  qfe_close qfe_rxzx_0 qfe_rxzx_1 qfe_rxzx_2 qfe_rxzx_3

theorem C19_quaternion_from_euler_rxzy (c_ih s_ih c_jh s_jh c_kh s_kh : K)
    (hi : c_ih ^ 2 + s_ih ^ 2 = 1) (hj : c_jh ^ 2 + s_jh ^ 2 = 1) (hk : c_kh ^ 2 + s_kh ^ 2 = 1) :
    quatM 2 (qfe_rxzy_0 c_ih s_ih c_jh s_jh c_kh s_kh) (qfe_rxzy_1 c_ih s_ih c_jh s_jh c_kh s_kh)
        (qfe_rxzy_2 c_ih s_ih c_jh s_jh c_kh s_kh) (qfe_rxzy_3 c_ih s_ih c_jh s_jh c_kh s_kh)
      = euler_rxzy (c_ih ^ 2 - s_ih ^ 2) (2 * s_ih * c_ih) (c_jh ^ 2 - s_jh ^ 2) (2 * s_jh * c_jh)
          (c_kh ^ 2 - s_kh ^ 2) (2 * s_kh * c_kh) := by
  rw [C19_euler_rxzy, ← UQ.rot_ex hi, ← UQ.rot_ez hj, ← UQ.rot_ey hk, ← UQ.rot_mul, ← UQ.rot_mul]
  qfe_close qfe_rxzy_0 qfe_rxzy_1 qfe_rxzy_2 qfe_rxzy_3

theorem C19_quaternion_from_euler_ryxy (c_ih s_ih c_jh s_jh c_kh s_kh : K)
    (hi : c_ih ^ 2 + s_ih ^ 2 = 1) (hj : c_jh ^ 2 + s_jh ^ 2 = 1) (hk : c_kh ^ 2 + s_kh ^ 2 = 1) :
    quatM 2 (qfe_ryxy_0 c_ih s_ih c_jh s_jh c_kh s_kh) (qfe_ryxy_1 c_ih s_ih c_jh s_jh c_kh s_kh)
        (qfe_ryxy_2 c_ih s_ih c_jh s_jh c_kh s_kh) (qfe_ryxy_3 c_ih s_ih c_jh s_jh c_kh s_kh)
      = euler_ryxy (c_ih ^ 2 - s_ih ^ 2) (2 * s_ih * c_ih) (c_jh ^ 2 - s_jh ^ 2) (2 * s_jh * c_jh)
          (c_kh ^ 2 - s_kh ^ 2) (2 * s_kh * c_kh) := by
  rw [C19_euler_ryxy, ← UQ.rot_ey hi, ← UQ.rot_ex hj, ← UQ.rot_ey hk, ← UQ.rot_mul, ← UQ.rot_mul]
  qfe_close qfe_ryxy_0 qfe_ryxy_1 qfe_ryxy_2 qfe_ryxy_3

theorem C19_quaternion_from_euler_ryxz (c_ih s_ih c_jh s_jh c_kh s_kh : K)
    (hi : c_ih ^ 2 + s_ih ^ 2 = 1) (hj : c_jh ^ 2 + s_jh ^ 2 = 1) (hk : c_kh ^ 2 + s_kh ^ 2 = 1) :
    quatM 2 (qfe_ryxz_0 c_ih s_ih c_jh s_jh c_kh s_kh) (qfe_ryxz_1 c_ih s_ih c_jh s_jh c_kh s_kh)
        (qfe_ryxz_2 c_ih s_ih c_jh s_jh c_kh s_kh) (qfe_ryxz_3 c_ih s_ih c_jh s_jh c_kh s_kh)
      = euler_ryxz (c_ih ^ 2 - s_ih ^ 2) (2 * s_ih * c_ih) (c_jh ^ 2 - s_jh ^ 2) (2 * s_jh * c_jh)
          (c_kh ^ 2 - s_kh ^ 2) (2 * s_kh * c_kh) := by
  rw [C19_euler_ryxz, ← UQ.rot_ey hi, ← UQ.rot_ex hj, ← UQ.rot_ez hk, ← UQ.rot_mul, ← UQ.rot_mul]
  qfe_close qfe_ryxz_0 qfe_ryxz_1 qfe_ryxz_2 qfe_ryxz_3

theorem C19_quaternion_from_euler_ryzx (c_ih s_ih c_jh s_jh c_kh s_kh : K)
    (hi : c_ih ^ 2 + s_ih ^ 2 = 1) (hj : c_jh ^ 2 + s_jh ^ 2 = 1) (hk : c_kh ^ 2 + s_kh ^ 2 = 1) :
    quatM 2 (qfe_ryzx_0 c_ih s_ih c_jh s_jh c_kh s_kh) (qfe_ryzx_1 c_ih s_ih c_jh s_jh c_kh s_kh)
        (qfe_ryzx_2 c_ih s_ih c_jh s_jh c_kh s_kh) (qfe_ryzx_3 c_ih s_ih c_jh s_jh c_kh s_kh)
      = euler_ryzx (c_ih ^ 2 - s_ih ^ 2) (2 * s_ih * c_ih) (c_jh ^ 2 - s_jh ^ 2) (2 * s_jh * c_jh)
          (c_kh ^ 2 - s_kh ^ 2) (2 * s_kh * c_kh) := by
  rw [C19_euler_ryzx, ← UQ.rot_ey hi, ← UQ.rot_ez hj, ← UQ.rot_ex hk, ← UQ.rot_mul, ← UQ.rot_mul]
  qfe_close qfe_ryzx_0 qfe_ryzx_1 qfe_ryzx_2 qfe_ryzx_3

theorem C19_quaternion_from_euler_ryzy (c_ih s_ih c_jh s_jh c_kh s_kh : K)
    (hi : c_ih ^ 2 + s_ih ^ 2 = 1) (hj : c_jh ^ 2 + s_jh ^ 2 = 1) (hk : c_kh ^ 2 + s_kh ^ 2 = 1) :
    quatM 2 (qfe_ryzy_0 c_ih s_ih c_jh s_jh c_kh s_kh) (qfe_ryzy_1 c_ih s_ih c_jh s_jh c_kh s_kh)
        (qfe_ryzy_2 c_ih s_ih c_jh s_jh c_kh s_kh) (qfe_ryzy_3 c_ih s_ih c_jh s_jh c_kh s_kh)
      = euler_ryzy (c_ih ^ 2 - s_ih ^ 2) (2 * s_ih * c_ih) (c_jh ^ 2 - s_jh ^ 2) (2 * s_jh * c_jh)
          (c_kh ^ 2 - s_kh ^ 2) (2 * s_kh * c_kh) := by
  rw [C19_euler_ryzy, ← UQ.rot_ey hi, ← UQ.rot_ez hj, ← UQ.rot_ey hk, ← UQ.rot_mul, ← UQ.rot_mul]
  qfe_close qfe_ryzy_0 qfe_ryzy_1 qfe_ryzy_2 qfe_ryzy_3

theorem C19_quaternion_from_euler_rzxy (c_ih s_ih c_jh s_jh c_kh s_kh : K)
    (hi : c_ih ^ 2 + s_ih ^ 2 = 1) (hj : c_jh ^ 2 + s_jh ^ 2 = 1) (hk : c_kh ^ 2 + s_kh ^ 2 = 1) :
    quatM 2 (qfe_rzxy_0 c_ih s_ih c_jh s_jh c_kh s_kh) (qfe_rzxy_1 c_ih s_ih c_jh s_jh c_kh s_kh)
        (qfe_rzxy_2 c_ih s_ih c_jh s_jh c_kh s_kh) (qfe_rzxy_3 c_ih s_ih c_jh s_jh c_kh s_kh)
      = euler_rzxy (c_ih ^ 2 - s_ih ^ 2) (2 * s_ih * c_ih) (c_jh ^ 2 - s_jh ^ 2) (2 * s_jh * c_jh)
          (c_kh ^ 2 - s_kh ^ 2) (2 * s_kh * c_kh) := by
  rw [C19_euler_rzxy, ← UQ.rot_ez hi, ← UQ.rot_ex hj, ← UQ.rot_ey hk, ← UQ.rot_mul, ← UQ.rot_mul]
  qfe_close qfe_rzxy_0 qfe_rzxy_1 qfe_rzxy_2 qfe_rzxy_3

theorem C19_quaternion_from_euler_rzxz (c_ih s_ih c_jh s_jh c_kh s_kh : K)
    (hi : c_ih ^ 2 + s_ih ^ 2 = 1) (hj : c_jh ^ 2 + s_jh ^ 2 = 1) (hk : c_kh ^ 2 + s_kh ^ 2 = 1) :
    quatM 2 (qfe_rzxz_0 c_ih s_ih c_jh s_jh c_kh s_kh) (qfe_rzxz_1 c_ih s_ih c_jh s_jh c_kh s_kh)
        (qfe_rzxz_2 c_ih s_ih c_jh s_jh c_kh s_kh) (qfe_rzxz_3 c_ih s_ih c_jh s_jh c_kh s_kh)
      = euler_rzxz (c_ih ^ 2 - s_ih ^ 2) (2 * s_ih * c_ih) (c_jh ^ 2 - s_jh ^ 2) (2 * s_jh * c_jh)
          (c_kh ^ 2 - s_kh ^ 2) (2 * s_kh * c_kh) := by
  rw [C19_euler_rzxz, ← UQ.rot_ez hi, ← UQ.rot_ex hj, ← UQ.rot_ez hk, ← UQ.rot_mul, ← UQ.rot_mul]
  qfe_close qfe_rzxz_0 qfe_rzxz_1 qfe_rzxz_2 qfe_rzxz_3

theorem C19_quaternion_from_euler_rzyx (c_ih s_ih c_jh s_jh c_kh s_kh : K)
    (hi : c_ih ^ 2 + s_ih ^ 2 = 1) (hj : c_jh ^ 2 + s_jh ^ 2 = 1) (hk : c_kh ^ 2 + s_kh ^ 2 = 1) :
    quatM 2 (qfe_rzyx_0 c_ih s_ih c_jh s_jh c_kh s_kh) (qfe_rzyx_1 c_ih s_ih c_jh s_jh c_kh s_kh)
        (qfe_rzyx_2 c_ih s_ih c_jh s_jh c_kh s_kh) (qfe_rzyx_3 c_ih s_ih c_jh s_jh c_kh s_kh)
      = euler_rzyx (c_ih ^ 2 - s_ih ^ 2) (2 * s_ih * c_ih) (c_jh ^ 2 - s_jh ^ 2) (2 * s_jh * c_jh)
          (c_kh ^ 2 - s_kh ^ 2) (2 * s_kh * c_kh) := by
  rw [C19_euler_rzyx, ← UQ.rot_ez hi, ← UQ.rot_ey hj, ← UQ.rot_ex hk, ← UQ.rot_mul, ← UQ.rot_mul]
  qfe_close qfe_rzyx_0 qfe_rzyx_1 qfe_rzyx_2 qfe_rzyx_3

theorem C19_quaternion_from_euler_rzyz (c_ih s_ih c_jh s_jh c_kh s_kh : K)
    (hi : c_ih ^ 2 + s_ih ^ 2 = 1) (hj : c_jh ^ 2 + s_jh ^ 2 = 1) (hk : c_kh ^ 2 + s_kh ^ 2 = 1) :
    quatM 2 (qfe_rzyz_0 c_ih s_ih c_jh s_jh c_kh s_kh) (qfe_rzyz_1 c_ih s_ih c_jh s_jh c_kh s_kh)
        (qfe_rzyz_2 c_ih s_ih c_jh s_jh c_kh s_kh) (qfe_rzyz_3 c_ih s_ih c_jh s_jh c_kh s_kh)
      = euler_rzyz (c_ih ^ 2 - s_ih ^ 2) (2 * s_ih * c_ih) (c_jh ^ 2 - s_jh ^ 2) (2 * s_jh * c_jh)
          (c_kh ^ 2 - s_kh ^ 2) (2 * s_kh * c_kh) := by
  rw [C19_euler_rzyz, ← UQ.rot_ez hi, ← UQ.rot_ey hj, ← UQ.rot_ez hk, ← UQ.rot_mul, ← UQ.rot_mul]
  qfe_close qfe_rzyz_0 qfe_rzyz_1 qfe_rzyz_2 qfe_rzyz_3

theorem C19_quaternion_from_euler_sxyx (c_ih s_ih c_jh s_jh c_kh s_kh : K)
    (hi : c_ih ^ 2 + s_ih ^ 2 = 1) (hj : c_jh ^ 2 + s_jh ^ 2 = 1) (hk : c_kh ^ 2 + s_kh ^ 2 = 1) :
    quatM 2 (qfe_sxyx_0 c_ih s_ih c_jh s_jh c_kh s_kh) (qfe_sxyx_1 c_ih s_ih c_jh s_jh c_kh s_kh)
        (qfe_sxyx_2 c_ih s_ih c_jh s_jh c_kh s_kh) (qfe_sxyx_3 c_ih s_ih c_jh s_jh c_kh s_kh)
      = euler_sxyx (c_ih ^ 2 - s_ih ^ 2) (2 * s_ih * c_ih) (c_jh ^ 2 - s_jh ^ 2) (2 * s_jh * c_jh)
          (c_kh ^ 2 - s_kh ^ 2) (2 * s_kh * c_kh) := by
  rw [C19_euler_sxyx, ← UQ.rot_ex hk, ← UQ.rot_ey hj, ← UQ.rot_ex hi, ← UQ.rot_mul, ← UQ.rot_mul]
  qfe_close qfe_sxyx_0 qfe_sxyx_1 qfe_sxyx_2 qfe_sxyx_3

theorem C19_quaternion_from_euler_sxyz (c_ih s_ih c_jh s_jh c_kh s_kh : K)
    (hi : c_ih ^ 2 + s_ih ^ 2 = 1) (hj : c_jh ^ 2 + s_jh ^ 2 = 1) (hk : c_kh ^ 2 + s_kh ^ 2 = 1) :
    quatM 2 (qfe_sxyz_0 c_ih s_ih c_jh s_jh c_kh s_kh) (qfe_sxyz_1 c_ih s_ih c_jh s_jh c_kh s_kh)
        (qfe_sxyz_2 c_ih s_ih c_jh s_jh c_kh s_kh) (qfe_sxyz_3 c_ih s_ih c_jh s_jh c_kh s_kh)
      = euler_sxyz (c_ih ^ 2 - s_ih ^ 2) (2 * s_ih * c_ih) (c_jh ^ 2 - s_jh ^ 2) (2 * s_jh * c_jh)
          (c_kh ^ 2 - s_kh ^ 2) (2 * s_kh * c_kh) := by
  rw [C19_euler_sxyz, ← UQ.rot_ez hk, ← UQ.rot_ey hj, ← UQ.rot_ex hi, ← UQ.rot_mul, ← UQ.rot_mul]
  qfe_close qfe_sxyz_0 qfe_sxyz_1 qfe_sxyz_2 qfe_sxyz_3

theorem C19_quaternion_from_euler_sxzx (c_ih s_ih c_jh s_jh c_kh s_kh : K)
    (hi : c_ih ^ 2 + s_ih ^ 2 = 1) (hj : c_jh ^ 2 + s_jh ^ 2 = 1) (hk : c_kh ^ 2 + s_kh ^ 2 = 1) :
    quatM 2 (qfe_sxzx_0 c_ih s_ih c_jh s_jh c_kh s_kh) (qfe_sxzx_1 c_ih s_ih c_jh s_jh c_kh s_kh)
        (qfe_sxzx_2 c_ih s_ih c_jh s_jh c_kh s_kh) (qfe_sxzx_3 c_ih s_ih c_jh s_jh c_kh s_kh)
      = euler_sxzx (c_ih ^ 2 - s_ih ^ 2) (2 * s_ih * c_ih) (c_jh ^ 2 - s_jh ^ 2) (2 * s_jh * c_jh)
          (c_kh ^ 2 - s_kh ^ 2) (2 * s_kh * c_kh) := by
  rw [C19_euler_sxzx, ← UQ.rot_ex hk, ← UQ.rot_ez hj, ← UQ.rot_ex hi, ← UQ.rot_mul, ← UQ.rot_mul]
  qfe_close qfe_sxzx_0 qfe_sxzx_1 qfe_sxzx_2 qfe_sxzx_3

theorem C19_quaternion_from_euler_sxzy (c_ih s_ih c_jh s_jh c_kh s_kh : K)
    (hi : c_ih ^ 2 + s_ih ^ 2 = 1) (hj : c_jh ^ 2 + s_jh ^ 2 = 1) (hk : c_kh ^ 2 + s_kh ^ 2 = 1) :
    quatM 2 (qfe_sxzy_0 c_ih s_ih c_jh s_jh c_kh s_kh) (qfe_sxzy_1 c_ih s_ih c_jh s_jh c_kh s_kh)
        (qfe_sxzy_2 c_ih s_ih c_jh s_jh c_kh s_kh) (qfe_sxzy_3 c_ih s_ih c_jh s_jh c_kh s_kh)
      = euler_sxzy (c_ih ^ 2 - s_ih ^ 2) (2 * s_ih * c_ih) (c_jh ^ 2 - s_jh ^ 2) (2 * s_jh * c_jh)
          (c_kh ^ 2 - s_kh ^ 2) (2 * s_kh * c_kh) := by
  rw [C19_euler_sxzy, ← UQ.rot_ey hk, ← UQ.rot_ez hj, ← UQ.rot_ex hi, ← UQ.rot_mul, ← UQ.rot_mul]
  qfe_close qfe_sxzy_0 qfe_sxzy_1 qfe_sxzy_2 qfe_sxzy_3

theorem C19_quaternion_from_euler_syxy (c_ih s_ih c_jh s_jh c_kh s_kh : K)
    (hi : c_ih ^ 2 + s_ih ^ 2 = 1) (hj : c_jh ^ 2 + s_jh ^ 2 = 1) (hk : c_kh ^ 2 + s_kh ^ 2 = 1) :
    quatM 2 (qfe_syxy_0 c_ih s_ih c_jh s_jh c_kh s_kh) (qfe_syxy_1 c_ih s_ih c_jh s_jh c_kh s_kh)
        (qfe_syxy_2 c_ih s_ih c_jh s_jh c_kh s_kh) (qfe_syxy_3 c_ih s_ih c_jh s_jh c_kh s_kh)
      = euler_syxy (c_ih ^ 2 - s_ih ^ 2) (2 * s_ih * c_ih) (c_jh ^ 2 - s_jh ^ 2) (2 * s_jh * c_jh)
          (c_kh ^ 2 - s_kh ^ 2) (2 * s_kh * c_kh) := by
  rw [C19_euler_syxy, ← UQ.rot_ey hk, ← UQ.rot_ex hj, ← UQ.rot_ey hi, ← UQ.rot_mul, ← UQ.rot_mul]
  qfe_close qfe_syxy_0 qfe_syxy_1 qfe_syxy_2 qfe_syxy_3

theorem C19_quaternion_from_euler_syxz (c_ih s_ih c_jh s_jh c_kh s_kh : K)
    (hi : c_ih ^ 2 + s_ih ^ 2 = 1) (hj : c_jh ^ 2 + s_jh ^ 2 = 1) (hk : c_kh ^ 2 + s_kh ^ 2 = 1) :
    quatM 2 (qfe_syxz_0 c_ih s_ih c_jh s_jh c_kh s_kh) (qfe_syxz_1 c_ih s_ih c_jh s_jh c_kh s_kh)
        (qfe_syxz_2 c_ih s_ih c_jh s_jh c_kh s_kh) (qfe_syxz_3 c_ih s_ih c_jh s_jh c_kh s_kh)
      = euler_syxz (c_ih ^ 2 - s_ih ^ 2) (2 * s_ih * c_ih) (c_jh ^ 2 - s_jh ^ 2) (2 * s_jh * c_jh)
          (c_kh ^ 2 - s_kh ^ 2) (2 * s_kh * c_kh) := by
  rw [C19_euler_syxz, ← UQ.rot_ez hk, ← UQ.rot_ex hj, ← UQ.rot_ey hi, ← UQ.rot_mul, ← UQ.rot_mul]
  qfe_close qfe_syxz_0 qfe_syxz_1 qfe_syxz_2 qfe_syxz_3

theorem C19_quaternion_from_euler_syzx (c_ih s_ih c_jh s_jh c_kh s_kh : K)
    (hi : c_ih ^ 2 + s_ih ^ 2 = 1) (hj : c_jh ^ 2 + s_jh ^ 2 = 1) (hk : c_kh ^ 2 + s_kh ^ 2 = 1) :
    quatM 2 (qfe_syzx_0 c_ih s_ih c_jh s_jh c_kh s_kh) (qfe_syzx_1 c_ih s_ih c_jh s_jh c_kh s_kh)
        (qfe_syzx_2 c_ih s_ih c_jh s_jh c_kh s_kh) (qfe_syzx_3 c_ih s_ih c_jh s_jh c_kh s_kh)
      = euler_syzx (c_ih ^ 2 - s_ih ^ 2) (2 * s_ih * c_ih) (c_jh ^ 2 - s_jh ^ 2) (2 * s_jh * c_jh)
          (c_kh ^ 2 - s_kh ^ 2) (2 * s_kh * c_kh) := by
  rw [C19_euler_syzx, ← UQ.rot_ex hk, ← UQ.rot_ez hj, ← UQ.rot_ey hi, ← UQ.rot_mul, ← UQ.rot_mul]
  qfe_close qfe_syzx_0 qfe_syzx_1 qfe_syzx_2 qfe_syzx_3

theorem C19_quaternion_from_euler_syzy (c_ih s_ih c_jh s_jh c_kh s_kh : K)
    (hi : c_ih ^ 2 + s_ih ^ 2 = 1) (hj : c_jh ^ 2 + s_jh ^ 2 = 1) (hk : c_kh ^ 2 + s_kh ^ 2 = 1) :
    quatM 2 (qfe_syzy_0 c_ih s_ih c_jh s_jh c_kh s_kh) (qfe_syzy_1 c_ih s_ih c_jh s_jh c_kh s_kh)
        (qfe_syzy_2 c_ih s_ih c_jh s_jh c_kh s_kh) (qfe_syzy_3 c_ih s_ih c_jh s_jh c_kh s_kh)
      = euler_syzy (c_ih ^ 2 - s_ih ^ 2) (2 * s_ih * c_ih) (c_jh ^ 2 - s_jh ^ 2) (2 * s_jh * c_jh)
          (c_kh ^ 2 - s_kh ^ 2) (2 * s_kh * c_kh) := by
  rw [C19_euler_syzy, ← UQ.rot_ey hk, ← UQ.rot_ez hj, ← UQ.rot_ey hi, ← UQ.rot_mul, ← UQ.rot_mul]
  qfe_close qfe_syzy_0 qfe_syzy_1 qfe_syzy_2 qfe_syzy_3

theorem C19_quaternion_from_euler_szxy (c_ih s_ih c_jh s_jh c_kh s_kh : K)
    (hi : c_ih ^ 2 + s_ih ^ 2 = 1) (hj : c_jh ^ 2 + s_jh ^ 2 = 1) (hk : c_kh ^ 2 + s_kh ^ 2 = 1) :
    quatM 2 (qfe_szxy_0 c_ih s_ih c_jh s_jh c_kh s_kh) (qfe_szxy_1 c_ih s_ih c_jh s_jh c_kh s_kh)
        (qfe_szxy_2 c_ih s_ih c_jh s_jh c_kh s_kh) (qfe_szxy_3 c_ih s_ih c_jh s_jh c_kh s_kh)
      = euler_szxy (c_ih ^ 2 - s_ih ^ 2) (2 * s_ih * c_ih) (c_jh ^ 2 - s_jh ^ 2) (2 * s_jh * c_jh)
          (c_kh ^ 2 - s_kh ^ 2) (2 * s_kh * c_kh) := by
  rw [C19_euler_szxy, ← UQ.rot_ey hk, ← UQ.rot_ex hj, ← UQ.rot_ez hi, ← UQ.rot_mul, ← UQ.rot_mul]
  qfe_close qfe_szxy_0 qfe_szxy_1 qfe_szxy_2 qfe_szxy_3

theorem C19_quaternion_from_euler_szxz (c_ih s_ih c_jh s_jh c_kh s_kh : K)
    (hi : c_ih ^ 2 + s_ih ^ 2 = 1) (hj : c_jh ^ 2 + s_jh ^ 2 = 1) (hk : c_kh ^ 2 + s_kh ^ 2 = 1) :
    quatM 2 (qfe_szxz_0 c_ih s_ih c_jh s_jh c_kh s_kh) (qfe_szxz_1 c_ih s_ih c_jh s_jh c_kh s_kh)
        (qfe_szxz_2 c_ih s_ih c_jh s_jh c_kh s_kh) (qfe_szxz_3 c_ih s_ih c_jh s_jh c_kh s_kh)
      = euler_szxz (c_ih ^ 2 - s_ih ^ 2) (2 * s_ih * c_ih) (c_jh ^ 2 - s_jh ^ 2) (2 * s_jh * c_jh)
          (c_kh ^ 2 - s_kh ^ 2) (2 * s_kh * c_kh) := by
  rw [C19_euler_szxz, ← UQ.rot_ez hk, ← UQ.rot_ex hj, ← UQ.rot_ez hi, ← UQ.rot_mul, ← UQ.rot_mul]
  qfe_close qfe_szxz_0 qfe_szxz_1 qfe_szxz_2 qfe_szxz_3

theorem C19_quaternion_from_euler_szyx (c_ih s_ih c_jh s_jh c_kh s_kh : K)
    (hi : c_ih ^ 2 + s_ih ^ 2 = 1) (hj : c_jh ^ 2 + s_jh ^ 2 = 1) (hk : c_kh ^ 2 + s_kh ^ 2 = 1) :
    quatM 2 (qfe_szyx_0 c_ih s_ih c_jh s_jh c_kh s_kh) (qfe_szyx_1 c_ih s_ih c_jh s_jh c_kh s_kh)
        (qfe_szyx_2 c_ih s_ih c_jh s_jh c_kh s_kh) (qfe_szyx_3 c_ih s_ih c_jh s_jh c_kh s_kh)
      = euler_szyx (c_ih ^ 2 - s_ih ^ 2) (2 * s_ih * c_ih) (c_jh ^ 2 - s_jh ^ 2) (2 * s_jh * c_jh)
          (c_kh ^ 2 - s_kh ^ 2) (2 * s_kh * c_kh) := by
  rw [C19_euler_szyx, ← UQ.rot_ex hk, ← UQ.rot_ey hj, ← UQ.rot_ez hi, ← UQ.rot_mul, ← UQ.rot_mul]
  qfe_close qfe_szyx_0 qfe_szyx_1 qfe_szyx_2 qfe_szyx_3

theorem C19_quaternion_from_euler_szyz (c_ih s_ih c_jh s_jh c_kh s_kh : K)
    (hi : c_ih ^ 2 + s_ih ^ 2 = 1) (hj : c_jh ^ 2 + s_jh ^ 2 = 1) (hk : c_kh ^ 2 + s_kh ^ 2 = 1) :
    quatM 2 (qfe_szyz_0 c_ih s_ih c_jh s_jh c_kh s_kh) (qfe_szyz_1 c_ih s_ih c_jh s_jh c_kh s_kh)
        (qfe_szyz_2 c_ih s_ih c_jh s_jh c_kh s_kh) (qfe_szyz_3 c_ih s_ih c_jh s_jh c_kh s_kh)
      = euler_szyz (c_ih ^ 2 - s_ih ^ 2) (2 * s_ih * c_ih) (c_jh ^ 2 - s_jh ^ 2) (2 * s_jh * c_jh)
          (c_kh ^ 2 - s_kh ^ 2) (2 * s_kh * c_kh) := by
  rw [C19_euler_szyz, ← UQ.rot_ez hk, ← UQ.rot_ey hj, ← UQ.rot_ez hi, ← UQ.rot_mul, ← UQ.rot_mul]
  qfe_close qfe_szyz_0 qfe_szyz_1 qfe_szyz_2 qfe_szyz_3

/-! ### points -/

/-- `transform_points` is homogeneous matrix multiplication in 3D (with and without translation) and 2D -/
theorem C19_transform_points (m00 m01 m02 m03 m10 m11 m12 m13 m20 m21 m22 m23 m30 m31 m32 m33 x1 x2 x3 : K)
    (n00 n01 n02 n10 n11 n12 n20 n21 n22 y1 y2 : K) :
    tp3_0 m00 m01 m02 m03 m10 m11 m12 m13 m20 m21 m22 m23 m30 m31 m32 m33 x1 x2 x3 = m00 * x1 + m01 * x2 + m02 * x3 + m03 ∧
    tp3_1 m00 m01 m02 m03 m10 m11 m12 m13 m20 m21 m22 m23 m30 m31 m32 m33 x1 x2 x3 = m10 * x1 + m11 * x2 + m12 * x3 + m13 ∧
    tp3_2 m00 m01 m02 m03 m10 m11 m12 m13 m20 m21 m22 m23 m30 m31 m32 m33 x1 x2 x3 = m20 * x1 + m21 * x2 + m22 * x3 + m23 ∧
    tp3r_0 m00 m01 m02 m03 m10 m11 m12 m13 m20 m21 m22 m23 m30 m31 m32 m33 x1 x2 x3 = m00 * x1 + m01 * x2 + m02 * x3 ∧
    tp3r_1 m00 m01 m02 m03 m10 m11 m12 m13 m20 m21 m22 m23 m30 m31 m32 m33 x1 x2 x3 = m10 * x1 + m11 * x2 + m12 * x3 ∧
    tp3r_2 m00 m01 m02 m03 m10 m11 m12 m13 m20 m21 m22 m23 m30 m31 m32 m33 x1 x2 x3 = m20 * x1 + m21 * x2 + m22 * x3 ∧
    tp2_0 n00 n01 n02 n10 n11 n12 n20 n21 n22 y1 y2 = n00 * y1 + n01 * y2 + n02 ∧
    tp2_1 n00 n01 n02 n10 n11 n12 n20 n21 n22 y1 y2 = n10 * y1 + n11 * y2 + n12 := by
  simp only [tp3_0, tp3_1, tp3_2, tp3r_0, tp3r_1, tp3r_2, tp2_0, tp2_1]
  refine ⟨?_, ?_, ?_, ?_, ?_, ?_, ?_, ?_⟩ <;> ring


/-! ### inverse direction: `euler_from_matrix` (traced, both branches, Generated/C19Inverse.lean)

For every convention the real `euler_from_matrix` is run on a symbolic matrix; its one square root is the symbol
`sq` (radicand `r_<axes>_rad`), and each `arctan2(y, x)` it returns is recorded as the pair `r_<axes>_y<n>`,
`r_<axes>_x<n>` (regular branch) or `g_<axes>_…` (gimbal branch).  The theorems substitute
`M = euler_matrix(ai, aj, ak, axes)` (the traced matrix of the theorems above). -/

open TV.Generated.C19Inv

/-- what it means for `arctan2(Y, X)` to recover an angle with cosine `c` and sine `s`: if
    `(Y, X) = L · (s, c)` then the point `(X, Y)` lies on the line through the origin with direction `(c, s)`,
    at signed distance `L` along it - so `arctan2` returns that angle exactly when `L > 0` -/
theorem C19_atan2_arguments (Y X L c s : K) (h : c ^ 2 + s ^ 2 = 1) (hy : Y = L * s) (hx : X = L * c) :
    Y * c - X * s = 0 ∧ Y * s + X * c = L ∧ X ^ 2 + Y ^ 2 = L ^ 2 := by
  subst hy hx
  refine ⟨by ring, by linear_combination L * h, by linear_combination L ^ 2 * h⟩

/-- **`euler_from_matrix(euler_matrix(ai, aj, ak, 'rxyx'), 'rxyx')`, regular branch**: the radicand is the square of
    `sin aj` and the arctan2 arguments for `ai`, `ak` are that factor times `(sin, cos)`; the middle pair is `(sin aj, cos aj)`
    with the root in place of the factor.  So the angles are recovered exactly where the factor is positive -/
theorem C19_euler_from_matrix_rxyx (c_i s_i c_j s_j c_k s_k sq : K) (hi : c_i ^ 2 + s_i ^ 2 = 1) (hj : c_j ^ 2 + s_j ^ 2 = 1) (hk : c_k ^ 2 + s_k ^ 2 = 1) :
    r_rxyx_rad (euler_rxyx c_i s_i c_j s_j c_k s_k) = s_j ^ 2 ∧
    r_rxyx_y0 (euler_rxyx c_i s_i c_j s_j c_k s_k) sq = s_j * s_i ∧
    r_rxyx_x0 (euler_rxyx c_i s_i c_j s_j c_k s_k) sq = s_j * c_i ∧
    r_rxyx_y1 (euler_rxyx c_i s_i c_j s_j c_k s_k) sq = sq ∧
    r_rxyx_x1 (euler_rxyx c_i s_i c_j s_j c_k s_k) sq = c_j ∧
    r_rxyx_y2 (euler_rxyx c_i s_i c_j s_j c_k s_k) sq = s_j * s_k ∧
    r_rxyx_x2 (euler_rxyx c_i s_i c_j s_j c_k s_k) sq = s_j * c_k := by
  have h := r_rxyx_spec c_i s_i c_j s_j c_k s_k sq hi hj hk
  exact ⟨by linear_combination h.1, by linear_combination h.2.1, by linear_combination h.2.2.1,
    by linear_combination h.2.2.2.1, by linear_combination h.2.2.2.2.1, by linear_combination h.2.2.2.2.2.1,
    by linear_combination h.2.2.2.2.2.2⟩

/-- **`euler_from_matrix(euler_matrix(ai, aj, ak, 'rxyz'), 'rxyz')`, regular branch**: the radicand is the square of
    `cos aj` and the arctan2 arguments for `ai`, `ak` are that factor times `(sin, cos)`; the middle pair is `(sin aj, cos aj)`
    with the root in place of the factor.  So the angles are recovered exactly where the factor is positive -/
theorem C19_euler_from_matrix_rxyz (c_i s_i c_j s_j c_k s_k sq : K) (hi : c_i ^ 2 + s_i ^ 2 = 1) (hj : c_j ^ 2 + s_j ^ 2 = 1) (hk : c_k ^ 2 + s_k ^ 2 = 1) :
    r_rxyz_rad (euler_rxyz c_i s_i c_j s_j c_k s_k) = c_j ^ 2 ∧
    r_rxyz_y0 (euler_rxyz c_i s_i c_j s_j c_k s_k) sq = c_j * s_i ∧
    r_rxyz_x0 (euler_rxyz c_i s_i c_j s_j c_k s_k) sq = c_j * c_i ∧
    r_rxyz_y1 (euler_rxyz c_i s_i c_j s_j c_k s_k) sq = s_j ∧
    r_rxyz_x1 (euler_rxyz c_i s_i c_j s_j c_k s_k) sq = sq ∧
    r_rxyz_y2 (euler_rxyz c_i s_i c_j s_j c_k s_k) sq = c_j * s_k ∧
    r_rxyz_x2 (euler_rxyz c_i s_i c_j s_j c_k s_k) sq = c_j * c_k := by
  have h := r_rxyz_spec c_i s_i c_j s_j c_k s_k sq hi hj hk
  exact ⟨by linear_combination h.1, by linear_combination h.2.1, by linear_combination h.2.2.1,
    by linear_combination h.2.2.2.1, by linear_combination h.2.2.2.2.1, by linear_combination h.2.2.2.2.2.1,
    by linear_combination h.2.2.2.2.2.2⟩

/-- **`euler_from_matrix(euler_matrix(ai, aj, ak, 'rxzx'), 'rxzx')`, regular branch**: the radicand is the square of
    `-sin aj` (the three angles are negated after reading: the middle one comes out in (-π, 0)) and the arctan2 arguments for `ai`, `ak` are that factor times `(sin, cos)`; the middle pair is `(sin aj, cos aj)`
    with the root in place of the factor.  So the angles are recovered exactly where the factor is positive -/
theorem C19_euler_from_matrix_rxzx (c_i s_i c_j s_j c_k s_k sq : K) (hi : c_i ^ 2 + s_i ^ 2 = 1) (hj : c_j ^ 2 + s_j ^ 2 = 1) (hk : c_k ^ 2 + s_k ^ 2 = 1) :
    r_rxzx_rad (euler_rxzx c_i s_i c_j s_j c_k s_k) = (-s_j) ^ 2 ∧
    r_rxzx_y0 (euler_rxzx c_i s_i c_j s_j c_k s_k) sq = (-s_j) * s_i ∧
    r_rxzx_x0 (euler_rxzx c_i s_i c_j s_j c_k s_k) sq = (-s_j) * c_i ∧
    r_rxzx_y1 (euler_rxzx c_i s_i c_j s_j c_k s_k) sq = -sq ∧
    r_rxzx_x1 (euler_rxzx c_i s_i c_j s_j c_k s_k) sq = c_j ∧
    r_rxzx_y2 (euler_rxzx c_i s_i c_j s_j c_k s_k) sq = (-s_j) * s_k ∧
    r_rxzx_x2 (euler_rxzx c_i s_i c_j s_j c_k s_k) sq = (-s_j) * c_k := by
  have h := r_rxzx_spec c_i s_i c_j s_j c_k s_k sq hi hj hk
  exact ⟨by linear_combination h.1, by linear_combination h.2.1, by linear_combination h.2.2.1,
    by linear_combination h.2.2.2.1, by linear_combination h.2.2.2.2.1, by linear_combination h.2.2.2.2.2.1,
    by linear_combination h.2.2.2.2.2.2⟩

/-- **`euler_from_matrix(euler_matrix(ai, aj, ak, 'rxzy'), 'rxzy')`, regular branch**: the radicand is the square of
    `cos aj` and the arctan2 arguments for `ai`, `ak` are that factor times `(sin, cos)`; the middle pair is `(sin aj, cos aj)`
    with the root in place of the factor.  So the angles are recovered exactly where the factor is positive -/
theorem C19_euler_from_matrix_rxzy (c_i s_i c_j s_j c_k s_k sq : K) (hi : c_i ^ 2 + s_i ^ 2 = 1) (hj : c_j ^ 2 + s_j ^ 2 = 1) (hk : c_k ^ 2 + s_k ^ 2 = 1) :
    r_rxzy_rad (euler_rxzy c_i s_i c_j s_j c_k s_k) = c_j ^ 2 ∧
    r_rxzy_y0 (euler_rxzy c_i s_i c_j s_j c_k s_k) sq = c_j * s_i ∧
    r_rxzy_x0 (euler_rxzy c_i s_i c_j s_j c_k s_k) sq = c_j * c_i ∧
    r_rxzy_y1 (euler_rxzy c_i s_i c_j s_j c_k s_k) sq = s_j ∧
    r_rxzy_x1 (euler_rxzy c_i s_i c_j s_j c_k s_k) sq = sq ∧
    r_rxzy_y2 (euler_rxzy c_i s_i c_j s_j c_k s_k) sq = c_j * s_k ∧
    r_rxzy_x2 (euler_rxzy c_i s_i c_j s_j c_k s_k) sq = c_j * c_k := by
  have h := r_rxzy_spec c_i s_i c_j s_j c_k s_k sq hi hj hk
  exact ⟨by linear_combination h.1, by linear_combination h.2.1, by linear_combination h.2.2.1,
    by linear_combination h.2.2.2.1, by linear_combination h.2.2.2.2.1, by linear_combination h.2.2.2.2.2.1,
    by linear_combination h.2.2.2.2.2.2⟩

/-- **`euler_from_matrix(euler_matrix(ai, aj, ak, 'ryxy'), 'ryxy')`, regular branch**: the radicand is the square of
    `-sin aj` (the three angles are negated after reading: the middle one comes out in (-π, 0)) and the arctan2 arguments for `ai`, `ak` are that factor times `(sin, cos)`; the middle pair is `(sin aj, cos aj)`
    with the root in place of the factor.  So the angles are recovered exactly where the factor is positive -/
theorem C19_euler_from_matrix_ryxy (c_i s_i c_j s_j c_k s_k sq : K) (hi : c_i ^ 2 + s_i ^ 2 = 1) (hj : c_j ^ 2 + s_j ^ 2 = 1) (hk : c_k ^ 2 + s_k ^ 2 = 1) :
    r_ryxy_rad (euler_ryxy c_i s_i c_j s_j c_k s_k) = (-s_j) ^ 2 ∧
    r_ryxy_y0 (euler_ryxy c_i s_i c_j s_j c_k s_k) sq = (-s_j) * s_i ∧
    r_ryxy_x0 (euler_ryxy c_i s_i c_j s_j c_k s_k) sq = (-s_j) * c_i ∧
    r_ryxy_y1 (euler_ryxy c_i s_i c_j s_j c_k s_k) sq = -sq ∧
    r_ryxy_x1 (euler_ryxy c_i s_i c_j s_j c_k s_k) sq = c_j ∧
    r_ryxy_y2 (euler_ryxy c_i s_i c_j s_j c_k s_k) sq = (-s_j) * s_k ∧
    r_ryxy_x2 (euler_ryxy c_i s_i c_j s_j c_k s_k) sq = (-s_j) * c_k := by
  have h := r_ryxy_spec c_i s_i c_j s_j c_k s_k sq hi hj hk
  exact ⟨by linear_combination h.1, by linear_combination h.2.1, by linear_combination h.2.2.1,
    by linear_combination h.2.2.2.1, by linear_combination h.2.2.2.2.1, by linear_combination h.2.2.2.2.2.1,
    by linear_combination h.2.2.2.2.2.2⟩

/-- **`euler_from_matrix(euler_matrix(ai, aj, ak, 'ryxz'), 'ryxz')`, regular branch**: the radicand is the square of
    `cos aj` and the arctan2 arguments for `ai`, `ak` are that factor times `(sin, cos)`; the middle pair is `(sin aj, cos aj)`
    with the root in place of the factor.  So the angles are recovered exactly where the factor is positive -/
theorem C19_euler_from_matrix_ryxz (c_i s_i c_j s_j c_k s_k sq : K) (hi : c_i ^ 2 + s_i ^ 2 = 1) (hj : c_j ^ 2 + s_j ^ 2 = 1) (hk : c_k ^ 2 + s_k ^ 2 = 1) :
    r_ryxz_rad (euler_ryxz c_i s_i c_j s_j c_k s_k) = c_j ^ 2 ∧
    r_ryxz_y0 (euler_ryxz c_i s_i c_j s_j c_k s_k) sq = c_j * s_i ∧
    r_ryxz_x0 (euler_ryxz c_i s_i c_j s_j c_k s_k) sq = c_j * c_i ∧
    r_ryxz_y1 (euler_ryxz c_i s_i c_j s_j c_k s_k) sq = s_j ∧
    r_ryxz_x1 (euler_ryxz c_i s_i c_j s_j c_k s_k) sq = sq ∧
    r_ryxz_y2 (euler_ryxz c_i s_i c_j s_j c_k s_k) sq = c_j * s_k ∧
    r_ryxz_x2 (euler_ryxz c_i s_i c_j s_j c_k s_k) sq = c_j * c_k := by
  have h := r_ryxz_spec c_i s_i c_j s_j c_k s_k sq hi hj hk
  exact ⟨by linear_combination h.1, by linear_combination h.2.1, by linear_combination h.2.2.1,
    by linear_combination h.2.2.2.1, by linear_combination h.2.2.2.2.1, by linear_combination h.2.2.2.2.2.1,
    by linear_combination h.2.2.2.2.2.2⟩

/-- **`euler_from_matrix(euler_matrix(ai, aj, ak, 'ryzx'), 'ryzx')`, regular branch**: the radicand is the square of
    `cos aj` and the arctan2 arguments for `ai`, `ak` are that factor times `(sin, cos)`; the middle pair is `(sin aj, cos aj)`
    with the root in place of the factor.  So the angles are recovered exactly where the factor is positive -/
theorem C19_euler_from_matrix_ryzx (c_i s_i c_j s_j c_k s_k sq : K) (hi : c_i ^ 2 + s_i ^ 2 = 1) (hj : c_j ^ 2 + s_j ^ 2 = 1) (hk : c_k ^ 2 + s_k ^ 2 = 1) :
    r_ryzx_rad (euler_ryzx c_i s_i c_j s_j c_k s_k) = c_j ^ 2 ∧
    r_ryzx_y0 (euler_ryzx c_i s_i c_j s_j c_k s_k) sq = c_j * s_i ∧
    r_ryzx_x0 (euler_ryzx c_i s_i c_j s_j c_k s_k) sq = c_j * c_i ∧
    r_ryzx_y1 (euler_ryzx c_i s_i c_j s_j c_k s_k) sq = s_j ∧
    r_ryzx_x1 (euler_ryzx c_i s_i c_j s_j c_k s_k) sq = sq ∧
    r_ryzx_y2 (euler_ryzx c_i s_i c_j s_j c_k s_k) sq = c_j * s_k ∧
    r_ryzx_x2 (euler_ryzx c_i s_i c_j s_j c_k s_k) sq = c_j * c_k := by
  have h := r_ryzx_spec c_i s_i c_j s_j c_k s_k sq hi hj hk
  exact ⟨by linear_combination h.1, by linear_combination h.2.1, by linear_combination h.2.2.1,
    by linear_combination h.2.2.2.1, by linear_combination h.2.2.2.2.1, by linear_combination h.2.2.2.2.2.1,
    by linear_combination h.2.2.2.2.2.2⟩

/-- **`euler_from_matrix(euler_matrix(ai, aj, ak, 'ryzy'), 'ryzy')`, regular branch**: the radicand is the square of
    `sin aj` and the arctan2 arguments for `ai`, `ak` are that factor times `(sin, cos)`; the middle pair is `(sin aj, cos aj)`
    with the root in place of the factor.  So the angles are recovered exactly where the factor is positive -/
theorem C19_euler_from_matrix_ryzy (c_i s_i c_j s_j c_k s_k sq : K) (hi : c_i ^ 2 + s_i ^ 2 = 1) (hj : c_j ^ 2 + s_j ^ 2 = 1) (hk : c_k ^ 2 + s_k ^ 2 = 1) :
    r_ryzy_rad (euler_ryzy c_i s_i c_j s_j c_k s_k) = s_j ^ 2 ∧
    r_ryzy_y0 (euler_ryzy c_i s_i c_j s_j c_k s_k) sq = s_j * s_i ∧
    r_ryzy_x0 (euler_ryzy c_i s_i c_j s_j c_k s_k) sq = s_j * c_i ∧
    r_ryzy_y1 (euler_ryzy c_i s_i c_j s_j c_k s_k) sq = sq ∧
    r_ryzy_x1 (euler_ryzy c_i s_i c_j s_j c_k s_k) sq = c_j ∧
    r_ryzy_y2 (euler_ryzy c_i s_i c_j s_j c_k s_k) sq = s_j * s_k ∧
    r_ryzy_x2 (euler_ryzy c_i s_i c_j s_j c_k s_k) sq = s_j * c_k := by
  have h := r_ryzy_spec c_i s_i c_j s_j c_k s_k sq hi hj hk
  exact ⟨by linear_combination h.1, by linear_combination h.2.1, by linear_combination h.2.2.1,
    by linear_combination h.2.2.2.1, by linear_combination h.2.2.2.2.1, by linear_combination h.2.2.2.2.2.1,
    by linear_combination h.2.2.2.2.2.2⟩

/-- **`euler_from_matrix(euler_matrix(ai, aj, ak, 'rzxy'), 'rzxy')`, regular branch**: the radicand is the square of
    `cos aj` and the arctan2 arguments for `ai`, `ak` are that factor times `(sin, cos)`; the middle pair is `(sin aj, cos aj)`
    with the root in place of the factor.  So the angles are recovered exactly where the factor is positive -/
theorem C19_euler_from_matrix_rzxy (c_i s_i c_j s_j c_k s_k sq : K) (hi : c_i ^ 2 + s_i ^ 2 = 1) (hj : c_j ^ 2 + s_j ^ 2 = 1) (hk : c_k ^ 2 + s_k ^ 2 = 1) :
    r_rzxy_rad (euler_rzxy c_i s_i c_j s_j c_k s_k) = c_j ^ 2 ∧
    r_rzxy_y0 (euler_rzxy c_i s_i c_j s_j c_k s_k) sq = c_j * s_i ∧
    r_rzxy_x0 (euler_rzxy c_i s_i c_j s_j c_k s_k) sq = c_j * c_i ∧
    r_rzxy_y1 (euler_rzxy c_i s_i c_j s_j c_k s_k) sq = s_j ∧
    r_rzxy_x1 (euler_rzxy c_i s_i c_j s_j c_k s_k) sq = sq ∧
    r_rzxy_y2 (euler_rzxy c_i s_i c_j s_j c_k s_k) sq = c_j * s_k ∧
    r_rzxy_x2 (euler_rzxy c_i s_i c_j s_j c_k s_k) sq = c_j * c_k := by
  have h := r_rzxy_spec c_i s_i c_j s_j c_k s_k sq hi hj hk
  exact ⟨by linear_combination h.1, by linear_combination h.2.1, by linear_combination h.2.2.1,
    by linear_combination h.2.2.2.1, by linear_combination h.2.2.2.2.1, by linear_combination h.2.2.2.2.2.1,
    by linear_combination h.2.2.2.2.2.2⟩

/-- **`euler_from_matrix(euler_matrix(ai, aj, ak, 'rzxz'), 'rzxz')`, regular branch**: the radicand is the square of
    `sin aj` and the arctan2 arguments for `ai`, `ak` are that factor times `(sin, cos)`; the middle pair is `(sin aj, cos aj)`
    with the root in place of the factor.  So the angles are recovered exactly where the factor is positive -/
theorem C19_euler_from_matrix_rzxz (c_i s_i c_j s_j c_k s_k sq : K) (hi : c_i ^ 2 + s_i ^ 2 = 1) (hj : c_j ^ 2 + s_j ^ 2 = 1) (hk : c_k ^ 2 + s_k ^ 2 = 1) :
    r_rzxz_rad (euler_rzxz c_i s_i c_j s_j c_k s_k) = s_j ^ 2 ∧
    r_rzxz_y0 (euler_rzxz c_i s_i c_j s_j c_k s_k) sq = s_j * s_i ∧
    r_rzxz_x0 (euler_rzxz c_i s_i c_j s_j c_k s_k) sq = s_j * c_i ∧
    r_rzxz_y1 (euler_rzxz c_i s_i c_j s_j c_k s_k) sq = sq ∧
    r_rzxz_x1 (euler_rzxz c_i s_i c_j s_j c_k s_k) sq = c_j ∧
    r_rzxz_y2 (euler_rzxz c_i s_i c_j s_j c_k s_k) sq = s_j * s_k ∧
    r_rzxz_x2 (euler_rzxz c_i s_i c_j s_j c_k s_k) sq = s_j * c_k := by
  have h := r_rzxz_spec c_i s_i c_j s_j c_k s_k sq hi hj hk
  exact ⟨by linear_combination h.1, by linear_combination h.2.1, by linear_combination h.2.2.1,
    by linear_combination h.2.2.2.1, by linear_combination h.2.2.2.2.1, by linear_combination h.2.2.2.2.2.1,
    by linear_combination h.2.2.2.2.2.2⟩

/-- **`euler_from_matrix(euler_matrix(ai, aj, ak, 'rzyx'), 'rzyx')`, regular branch**: the radicand is the square of
    `cos aj` and the arctan2 arguments for `ai`, `ak` are that factor times `(sin, cos)`; the middle pair is `(sin aj, cos aj)`
    with the root in place of the factor.  So the angles are recovered exactly where the factor is positive -/
theorem C19_euler_from_matrix_rzyx (c_i s_i c_j s_j c_k s_k sq : K) (hi : c_i ^ 2 + s_i ^ 2 = 1) (hj : c_j ^ 2 + s_j ^ 2 = 1) (hk : c_k ^ 2 + s_k ^ 2 = 1) :
    r_rzyx_rad (euler_rzyx c_i s_i c_j s_j c_k s_k) = c_j ^ 2 ∧
    r_rzyx_y0 (euler_rzyx c_i s_i c_j s_j c_k s_k) sq = c_j * s_i ∧
    r_rzyx_x0 (euler_rzyx c_i s_i c_j s_j c_k s_k) sq = c_j * c_i ∧
    r_rzyx_y1 (euler_rzyx c_i s_i c_j s_j c_k s_k) sq = s_j ∧
    r_rzyx_x1 (euler_rzyx c_i s_i c_j s_j c_k s_k) sq = sq ∧
    r_rzyx_y2 (euler_rzyx c_i s_i c_j s_j c_k s_k) sq = c_j * s_k ∧
    r_rzyx_x2 (euler_rzyx c_i s_i c_j s_j c_k s_k) sq = c_j * c_k := by
  have h := r_rzyx_spec c_i s_i c_j s_j c_k s_k sq hi hj hk
  exact ⟨by linear_combination h.1, by linear_combination h.2.1, by linear_combination h.2.2.1,
    by linear_combination h.2.2.2.1, by linear_combination h.2.2.2.2.1, by linear_combination h.2.2.2.2.2.1,
    by linear_combination h.2.2.2.2.2.2⟩

/-- **`euler_from_matrix(euler_matrix(ai, aj, ak, 'rzyz'), 'rzyz')`, regular branch**: the radicand is the square of
    `-sin aj` (the three angles are negated after reading: the middle one comes out in (-π, 0)) and the arctan2 arguments for `ai`, `ak` are that factor times `(sin, cos)`; the middle pair is `(sin aj, cos aj)`
    with the root in place of the factor.  So the angles are recovered exactly where the factor is positive -/
theorem C19_euler_from_matrix_rzyz (c_i s_i c_j s_j c_k s_k sq : K) (hi : c_i ^ 2 + s_i ^ 2 = 1) (hj : c_j ^ 2 + s_j ^ 2 = 1) (hk : c_k ^ 2 + s_k ^ 2 = 1) :
    r_rzyz_rad (euler_rzyz c_i s_i c_j s_j c_k s_k) = (-s_j) ^ 2 ∧
    r_rzyz_y0 (euler_rzyz c_i s_i c_j s_j c_k s_k) sq = (-s_j) * s_i ∧
    r_rzyz_x0 (euler_rzyz c_i s_i c_j s_j c_k s_k) sq = (-s_j) * c_i ∧
    r_rzyz_y1 (euler_rzyz c_i s_i c_j s_j c_k s_k) sq = -sq ∧
    r_rzyz_x1 (euler_rzyz c_i s_i c_j s_j c_k s_k) sq = c_j ∧
    r_rzyz_y2 (euler_rzyz c_i s_i c_j s_j c_k s_k) sq = (-s_j) * s_k ∧
    r_rzyz_x2 (euler_rzyz c_i s_i c_j s_j c_k s_k) sq = (-s_j) * c_k := by
  have h := r_rzyz_spec c_i s_i c_j s_j c_k s_k sq hi hj hk
  exact ⟨by linear_combination h.1, by linear_combination h.2.1, by linear_combination h.2.2.1,
    by linear_combination h.2.2.2.1, by linear_combination h.2.2.2.2.1, by linear_combination h.2.2.2.2.2.1,
    by linear_combination h.2.2.2.2.2.2⟩

/-- **`euler_from_matrix(euler_matrix(ai, aj, ak, 'sxyx'), 'sxyx')`, regular branch**: the radicand is the square of
    `sin aj` and the arctan2 arguments for `ai`, `ak` are that factor times `(sin, cos)`; the middle pair is `(sin aj, cos aj)`
    with the root in place of the factor.  So the angles are recovered exactly where the factor is positive -/
theorem C19_euler_from_matrix_sxyx (c_i s_i c_j s_j c_k s_k sq : K) (hi : c_i ^ 2 + s_i ^ 2 = 1) (hj : c_j ^ 2 + s_j ^ 2 = 1) (hk : c_k ^ 2 + s_k ^ 2 = 1) :
    r_sxyx_rad (euler_sxyx c_i s_i c_j s_j c_k s_k) = s_j ^ 2 ∧
    r_sxyx_y0 (euler_sxyx c_i s_i c_j s_j c_k s_k) sq = s_j * s_i ∧
    r_sxyx_x0 (euler_sxyx c_i s_i c_j s_j c_k s_k) sq = s_j * c_i ∧
    r_sxyx_y1 (euler_sxyx c_i s_i c_j s_j c_k s_k) sq = sq ∧
    r_sxyx_x1 (euler_sxyx c_i s_i c_j s_j c_k s_k) sq = c_j ∧
    r_sxyx_y2 (euler_sxyx c_i s_i c_j s_j c_k s_k) sq = s_j * s_k ∧
    r_sxyx_x2 (euler_sxyx c_i s_i c_j s_j c_k s_k) sq = s_j * c_k := by
  have h := r_sxyx_spec c_i s_i c_j s_j c_k s_k sq hi hj hk
  exact ⟨by linear_combination h.1, by linear_combination h.2.1, by linear_combination h.2.2.1,
    by linear_combination h.2.2.2.1, by linear_combination h.2.2.2.2.1, by linear_combination h.2.2.2.2.2.1,
    by linear_combination h.2.2.2.2.2.2⟩

/-- **`euler_from_matrix(euler_matrix(ai, aj, ak, 'sxyz'), 'sxyz')`, regular branch**: the radicand is the square of
    `cos aj` and the arctan2 arguments for `ai`, `ak` are that factor times `(sin, cos)`; the middle pair is `(sin aj, cos aj)`
    with the root in place of the factor.  So the angles are recovered exactly where the factor is positive -/
theorem C19_euler_from_matrix_sxyz (c_i s_i c_j s_j c_k s_k sq : K) (hi : c_i ^ 2 + s_i ^ 2 = 1) (hj : c_j ^ 2 + s_j ^ 2 = 1) (hk : c_k ^ 2 + s_k ^ 2 = 1) :
    r_sxyz_rad (euler_sxyz c_i s_i c_j s_j c_k s_k) = c_j ^ 2 ∧
    r_sxyz_y0 (euler_sxyz c_i s_i c_j s_j c_k s_k) sq = c_j * s_i ∧
    r_sxyz_x0 (euler_sxyz c_i s_i c_j s_j c_k s_k) sq = c_j * c_i ∧
    r_sxyz_y1 (euler_sxyz c_i s_i c_j s_j c_k s_k) sq = s_j ∧
    r_sxyz_x1 (euler_sxyz c_i s_i c_j s_j c_k s_k) sq = sq ∧
    r_sxyz_y2 (euler_sxyz c_i s_i c_j s_j c_k s_k) sq = c_j * s_k ∧
    r_sxyz_x2 (euler_sxyz c_i s_i c_j s_j c_k s_k) sq = c_j * c_k := by
  have h := r_sxyz_spec c_i s_i c_j s_j c_k s_k sq hi hj hk
  exact ⟨by linear_combination h.1, by linear_combination h.2.1, by linear_combination h.2.2.1,
    by linear_combination h.2.2.2.1, by linear_combination h.2.2.2.2.1, by linear_combination h.2.2.2.2.2.1,
    by linear_combination h.2.2.2.2.2.2⟩

/-- **`euler_from_matrix(euler_matrix(ai, aj, ak, 'sxzx'), 'sxzx')`, regular branch**: the radicand is the square of
    `-sin aj` (the three angles are negated after reading: the middle one comes out in (-π, 0)) and the arctan2 arguments for `ai`, `ak` are that factor times `(sin, cos)`; the middle pair is `(sin aj, cos aj)`
    with the root in place of the factor.  So the angles are recovered exactly where the factor is positive -/
theorem C19_euler_from_matrix_sxzx (c_i s_i c_j s_j c_k s_k sq : K) (hi : c_i ^ 2 + s_i ^ 2 = 1) (hj : c_j ^ 2 + s_j ^ 2 = 1) (hk : c_k ^ 2 + s_k ^ 2 = 1) :
    r_sxzx_rad (euler_sxzx c_i s_i c_j s_j c_k s_k) = (-s_j) ^ 2 ∧
    r_sxzx_y0 (euler_sxzx c_i s_i c_j s_j c_k s_k) sq = (-s_j) * s_i ∧
    r_sxzx_x0 (euler_sxzx c_i s_i c_j s_j c_k s_k) sq = (-s_j) * c_i ∧
    r_sxzx_y1 (euler_sxzx c_i s_i c_j s_j c_k s_k) sq = -sq ∧
    r_sxzx_x1 (euler_sxzx c_i s_i c_j s_j c_k s_k) sq = c_j ∧
    r_sxzx_y2 (euler_sxzx c_i s_i c_j s_j c_k s_k) sq = (-s_j) * s_k ∧
    r_sxzx_x2 (euler_sxzx c_i s_i c_j s_j c_k s_k) sq = (-s_j) * c_k := by
  have h := r_sxzx_spec c_i s_i c_j s_j c_k s_k sq hi hj hk
  exact ⟨by linear_combination h.1, by linear_combination h.2.1, by linear_combination h.2.2.1,
    by linear_combination h.2.2.2.1, by linear_combination h.2.2.2.2.1, by linear_combination h.2.2.2.2.2.1,
    by linear_combination h.2.2.2.2.2.2⟩

/-- **`euler_from_matrix(euler_matrix(ai, aj, ak, 'sxzy'), 'sxzy')`, regular branch**: the radicand is the square of
    `cos aj` and the arctan2 arguments for `ai`, `ak` are that factor times `(sin, cos)`; the middle pair is `(sin aj, cos aj)`
    with the root in place of the factor.  So the angles are recovered exactly where the factor is positive -/
theorem C19_euler_from_matrix_sxzy (c_i s_i c_j s_j c_k s_k sq : K) (hi : c_i ^ 2 + s_i ^ 2 = 1) (hj : c_j ^ 2 + s_j ^ 2 = 1) (hk : c_k ^ 2 + s_k ^ 2 = 1) :
    r_sxzy_rad (euler_sxzy c_i s_i c_j s_j c_k s_k) = c_j ^ 2 ∧
    r_sxzy_y0 (euler_sxzy c_i s_i c_j s_j c_k s_k) sq = c_j * s_i ∧
    r_sxzy_x0 (euler_sxzy c_i s_i c_j s_j c_k s_k) sq = c_j * c_i ∧
    r_sxzy_y1 (euler_sxzy c_i s_i c_j s_j c_k s_k) sq = s_j ∧
    r_sxzy_x1 (euler_sxzy c_i s_i c_j s_j c_k s_k) sq = sq ∧
    r_sxzy_y2 (euler_sxzy c_i s_i c_j s_j c_k s_k) sq = c_j * s_k ∧
    r_sxzy_x2 (euler_sxzy c_i s_i c_j s_j c_k s_k) sq = c_j * c_k := by
  have h := r_sxzy_spec c_i s_i c_j s_j c_k s_k sq hi hj hk
  exact ⟨by linear_combination h.1, by linear_combination h.2.1, by linear_combination h.2.2.1,
    by linear_combination h.2.2.2.1, by linear_combination h.2.2.2.2.1, by linear_combination h.2.2.2.2.2.1,
    by linear_combination h.2.2.2.2.2.2⟩

/-- **`euler_from_matrix(euler_matrix(ai, aj, ak, 'syxy'), 'syxy')`, regular branch**: the radicand is the square of
    `-sin aj` (the three angles are negated after reading: the middle one comes out in (-π, 0)) and the arctan2 arguments for `ai`, `ak` are that factor times `(sin, cos)`; the middle pair is `(sin aj, cos aj)`
    with the root in place of the factor.  So the angles are recovered exactly where the factor is positive -/
theorem C19_euler_from_matrix_syxy (c_i s_i c_j s_j c_k s_k sq : K) (hi : c_i ^ 2 + s_i ^ 2 = 1) (hj : c_j ^ 2 + s_j ^ 2 = 1) (hk : c_k ^ 2 + s_k ^ 2 = 1) :
    r_syxy_rad (euler_syxy c_i s_i c_j s_j c_k s_k) = (-s_j) ^ 2 ∧
    r_syxy_y0 (euler_syxy c_i s_i c_j s_j c_k s_k) sq = (-s_j) * s_i ∧
    r_syxy_x0 (euler_syxy c_i s_i c_j s_j c_k s_k) sq = (-s_j) * c_i ∧
    r_syxy_y1 (euler_syxy c_i s_i c_j s_j c_k s_k) sq = -sq ∧
    r_syxy_x1 (euler_syxy c_i s_i c_j s_j c_k s_k) sq = c_j ∧
    r_syxy_y2 (euler_syxy c_i s_i c_j s_j c_k s_k) sq = (-s_j) * s_k ∧
    r_syxy_x2 (euler_syxy c_i s_i c_j s_j c_k s_k) sq = (-s_j) * c_k := by
  have h := r_syxy_spec c_i s_i c_j s_j c_k s_k sq hi hj hk
  exact ⟨by linear_combination h.1, by linear_combination h.2.1, by linear_combination h.2.2.1,
    by linear_combination h.2.2.2.1, by linear_combination h.2.2.2.2.1, by linear_combination h.2.2.2.2.2.1,
    by linear_combination h.2.2.2.2.2.2⟩

/-- **`euler_from_matrix(euler_matrix(ai, aj, ak, 'syxz'), 'syxz')`, regular branch**: the radicand is the square of
    `cos aj` and the arctan2 arguments for `ai`, `ak` are that factor times `(sin, cos)`; the middle pair is `(sin aj, cos aj)`
    with the root in place of the factor.  So the angles are recovered exactly where the factor is positive -/
theorem C19_euler_from_matrix_syxz (c_i s_i c_j s_j c_k s_k sq : K) (hi : c_i ^ 2 + s_i ^ 2 = 1) (hj : c_j ^ 2 + s_j ^ 2 = 1) (hk : c_k ^ 2 + s_k ^ 2 = 1) :
    r_syxz_rad (euler_syxz c_i s_i c_j s_j c_k s_k) = c_j ^ 2 ∧
    r_syxz_y0 (euler_syxz c_i s_i c_j s_j c_k s_k) sq = c_j * s_i ∧
    r_syxz_x0 (euler_syxz c_i s_i c_j s_j c_k s_k) sq = c_j * c_i ∧
    r_syxz_y1 (euler_syxz c_i s_i c_j s_j c_k s_k) sq = s_j ∧
    r_syxz_x1 (euler_syxz c_i s_i c_j s_j c_k s_k) sq = sq ∧
    r_syxz_y2 (euler_syxz c_i s_i c_j s_j c_k s_k) sq = c_j * s_k ∧
    r_syxz_x2 (euler_syxz c_i s_i c_j s_j c_k s_k) sq = c_j * c_k := by
  have h := r_syxz_spec c_i s_i c_j s_j c_k s_k sq hi hj hk
  exact ⟨by linear_combination h.1, by linear_combination h.2.1, by linear_combination h.2.2.1,
    by linear_combination h.2.2.2.1, by linear_combination h.2.2.2.2.1, by linear_combination h.2.2.2.2.2.1,
    by linear_combination h.2.2.2.2.2.2⟩

/-- **`euler_from_matrix(euler_matrix(ai, aj, ak, 'syzx'), 'syzx')`, regular branch**: the radicand is the square of
    `cos aj` and the arctan2 arguments for `ai`, `ak` are that factor times `(sin, cos)`; the middle pair is `(sin aj, cos aj)`
    with the root in place of the factor.  So the angles are recovered exactly where the factor is positive -/
theorem C19_euler_from_matrix_syzx (c_i s_i c_j s_j c_k s_k sq : K) (hi : c_i ^ 2 + s_i ^ 2 = 1) (hj : c_j ^ 2 + s_j ^ 2 = 1) (hk : c_k ^ 2 + s_k ^ 2 = 1) :
    r_syzx_rad (euler_syzx c_i s_i c_j s_j c_k s_k) = c_j ^ 2 ∧
    r_syzx_y0 (euler_syzx c_i s_i c_j s_j c_k s_k) sq = c_j * s_i ∧
    r_syzx_x0 (euler_syzx c_i s_i c_j s_j c_k s_k) sq = c_j * c_i ∧
    r_syzx_y1 (euler_syzx c_i s_i c_j s_j c_k s_k) sq = s_j ∧
    r_syzx_x1 (euler_syzx c_i s_i c_j s_j c_k s_k) sq = sq ∧
    r_syzx_y2 (euler_syzx c_i s_i c_j s_j c_k s_k) sq = c_j * s_k ∧
    r_syzx_x2 (euler_syzx c_i s_i c_j s_j c_k s_k) sq = c_j * c_k := by
  have h := r_syzx_spec c_i s_i c_j s_j c_k s_k sq hi hj hk
  exact ⟨by linear_combination h.1, by linear_combination h.2.1, by linear_combination h.2.2.1,
    by linear_combination h.2.2.2.1, by linear_combination h.2.2.2.2.1, by linear_combination h.2.2.2.2.2.1,
    by linear_combination h.2.2.2.2.2.2⟩

/-- **`euler_from_matrix(euler_matrix(ai, aj, ak, 'syzy'), 'syzy')`, regular branch**: the radicand is the square of
    `sin aj` and the arctan2 arguments for `ai`, `ak` are that factor times `(sin, cos)`; the middle pair is `(sin aj, cos aj)`
    with the root in place of the factor.  So the angles are recovered exactly where the factor is positive -/
theorem C19_euler_from_matrix_syzy (c_i s_i c_j s_j c_k s_k sq : K) (hi : c_i ^ 2 + s_i ^ 2 = 1) (hj : c_j ^ 2 + s_j ^ 2 = 1) (hk : c_k ^ 2 + s_k ^ 2 = 1) :
    r_syzy_rad (euler_syzy c_i s_i c_j s_j c_k s_k) = s_j ^ 2 ∧
    r_syzy_y0 (euler_syzy c_i s_i c_j s_j c_k s_k) sq = s_j * s_i ∧
    r_syzy_x0 (euler_syzy c_i s_i c_j s_j c_k s_k) sq = s_j * c_i ∧
    r_syzy_y1 (euler_syzy c_i s_i c_j s_j c_k s_k) sq = sq ∧
    r_syzy_x1 (euler_syzy c_i s_i c_j s_j c_k s_k) sq = c_j ∧
    r_syzy_y2 (euler_syzy c_i s_i c_j s_j c_k s_k) sq = s_j * s_k ∧
    r_syzy_x2 (euler_syzy c_i s_i c_j s_j c_k s_k) sq = s_j * c_k := by
  have h := r_syzy_spec c_i s_i c_j s_j c_k s_k sq hi hj hk
  exact ⟨by linear_combination h.1, by linear_combination h.2.1, by linear_combination h.2.2.1,
    by linear_combination h.2.2.2.1, by linear_combination h.2.2.2.2.1, by linear_combination h.2.2.2.2.2.1,
    by linear_combination h.2.2.2.2.2.2⟩

/-- **`euler_from_matrix(euler_matrix(ai, aj, ak, 'szxy'), 'szxy')`, regular branch**: the radicand is the square of
    `cos aj` and the arctan2 arguments for `ai`, `ak` are that factor times `(sin, cos)`; the middle pair is `(sin aj, cos aj)`
    with the root in place of the factor.  So the angles are recovered exactly where the factor is positive -/
theorem C19_euler_from_matrix_szxy (c_i s_i c_j s_j c_k s_k sq : K) (hi : c_i ^ 2 + s_i ^ 2 = 1) (hj : c_j ^ 2 + s_j ^ 2 = 1) (hk : c_k ^ 2 + s_k ^ 2 = 1) :
    r_szxy_rad (euler_szxy c_i s_i c_j s_j c_k s_k) = c_j ^ 2 ∧
    r_szxy_y0 (euler_szxy c_i s_i c_j s_j c_k s_k) sq = c_j * s_i ∧
    r_szxy_x0 (euler_szxy c_i s_i c_j s_j c_k s_k) sq = c_j * c_i ∧
    r_szxy_y1 (euler_szxy c_i s_i c_j s_j c_k s_k) sq = s_j ∧
    r_szxy_x1 (euler_szxy c_i s_i c_j s_j c_k s_k) sq = sq ∧
    r_szxy_y2 (euler_szxy c_i s_i c_j s_j c_k s_k) sq = c_j * s_k ∧
    r_szxy_x2 (euler_szxy c_i s_i c_j s_j c_k s_k) sq = c_j * c_k := by
  have h := r_szxy_spec c_i s_i c_j s_j c_k s_k sq hi hj hk
  exact ⟨by linear_combination h.1, by linear_combination h.2.1, by linear_combination h.2.2.1,
    by linear_combination h.2.2.2.1, by linear_combination h.2.2.2.2.1, by linear_combination h.2.2.2.2.2.1,
    by linear_combination h.2.2.2.2.2.2⟩

/-- **`euler_from_matrix(euler_matrix(ai, aj, ak, 'szxz'), 'szxz')`, regular branch**: the radicand is the square of
    `sin aj` and the arctan2 arguments for `ai`, `ak` are that factor times `(sin, cos)`; the middle pair is `(sin aj, cos aj)`
    with the root in place of the factor.  So the angles are recovered exactly where the factor is positive -/
theorem C19_euler_from_matrix_szxz (c_i s_i c_j s_j c_k s_k sq : K) (hi : c_i ^ 2 + s_i ^ 2 = 1) (hj : c_j ^ 2 + s_j ^ 2 = 1) (hk : c_k ^ 2 + s_k ^ 2 = 1) :
    r_szxz_rad (euler_szxz c_i s_i c_j s_j c_k s_k) = s_j ^ 2 ∧
    r_szxz_y0 (euler_szxz c_i s_i c_j s_j c_k s_k) sq = s_j * s_i ∧
    r_szxz_x0 (euler_szxz c_i s_i c_j s_j c_k s_k) sq = s_j * c_i ∧
    r_szxz_y1 (euler_szxz c_i s_i c_j s_j c_k s_k) sq = sq ∧
    r_szxz_x1 (euler_szxz c_i s_i c_j s_j c_k s_k) sq = c_j ∧
    r_szxz_y2 (euler_szxz c_i s_i c_j s_j c_k s_k) sq = s_j * s_k ∧
    r_szxz_x2 (euler_szxz c_i s_i c_j s_j c_k s_k) sq = s_j * c_k := by
  have h := r_szxz_spec c_i s_i c_j s_j c_k s_k sq hi hj hk
  exact ⟨by linear_combination h.1, by linear_combination h.2.1, by linear_combination h.2.2.1,
    by linear_combination h.2.2.2.1, by linear_combination h.2.2.2.2.1, by linear_combination h.2.2.2.2.2.1,
    by linear_combination h.2.2.2.2.2.2⟩

/-- **`euler_from_matrix(euler_matrix(ai, aj, ak, 'szyx'), 'szyx')`, regular branch**: the radicand is the square of
    `cos aj` and the arctan2 arguments for `ai`, `ak` are that factor times `(sin, cos)`; the middle pair is `(sin aj, cos aj)`
    with the root in place of the factor.  So the angles are recovered exactly where the factor is positive -/
theorem C19_euler_from_matrix_szyx (c_i s_i c_j s_j c_k s_k sq : K) (hi : c_i ^ 2 + s_i ^ 2 = 1) (hj : c_j ^ 2 + s_j ^ 2 = 1) (hk : c_k ^ 2 + s_k ^ 2 = 1) :
    r_szyx_rad (euler_szyx c_i s_i c_j s_j c_k s_k) = c_j ^ 2 ∧
    r_szyx_y0 (euler_szyx c_i s_i c_j s_j c_k s_k) sq = c_j * s_i ∧
    r_szyx_x0 (euler_szyx c_i s_i c_j s_j c_k s_k) sq = c_j * c_i ∧
    r_szyx_y1 (euler_szyx c_i s_i c_j s_j c_k s_k) sq = s_j ∧
    r_szyx_x1 (euler_szyx c_i s_i c_j s_j c_k s_k) sq = sq ∧
    r_szyx_y2 (euler_szyx c_i s_i c_j s_j c_k s_k) sq = c_j * s_k ∧
    r_szyx_x2 (euler_szyx c_i s_i c_j s_j c_k s_k) sq = c_j * c_k := by
  have h := r_szyx_spec c_i s_i c_j s_j c_k s_k sq hi hj hk
  exact ⟨by linear_combination h.1, by linear_combination h.2.1, by linear_combination h.2.2.1,
    by linear_combination h.2.2.2.1, by linear_combination h.2.2.2.2.1, by linear_combination h.2.2.2.2.2.1,
    by linear_combination h.2.2.2.2.2.2⟩

/-- **`euler_from_matrix(euler_matrix(ai, aj, ak, 'szyz'), 'szyz')`, regular branch**: the radicand is the square of
    `-sin aj` (the three angles are negated after reading: the middle one comes out in (-π, 0)) and the arctan2 arguments for `ai`, `ak` are that factor times `(sin, cos)`; the middle pair is `(sin aj, cos aj)`
    with the root in place of the factor.  So the angles are recovered exactly where the factor is positive -/
theorem C19_euler_from_matrix_szyz (c_i s_i c_j s_j c_k s_k sq : K) (hi : c_i ^ 2 + s_i ^ 2 = 1) (hj : c_j ^ 2 + s_j ^ 2 = 1) (hk : c_k ^ 2 + s_k ^ 2 = 1) :
    r_szyz_rad (euler_szyz c_i s_i c_j s_j c_k s_k) = (-s_j) ^ 2 ∧
    r_szyz_y0 (euler_szyz c_i s_i c_j s_j c_k s_k) sq = (-s_j) * s_i ∧
    r_szyz_x0 (euler_szyz c_i s_i c_j s_j c_k s_k) sq = (-s_j) * c_i ∧
    r_szyz_y1 (euler_szyz c_i s_i c_j s_j c_k s_k) sq = -sq ∧
    r_szyz_x1 (euler_szyz c_i s_i c_j s_j c_k s_k) sq = c_j ∧
    r_szyz_y2 (euler_szyz c_i s_i c_j s_j c_k s_k) sq = (-s_j) * s_k ∧
    r_szyz_x2 (euler_szyz c_i s_i c_j s_j c_k s_k) sq = (-s_j) * c_k := by
  have h := r_szyz_spec c_i s_i c_j s_j c_k s_k sq hi hj hk
  exact ⟨by linear_combination h.1, by linear_combination h.2.1, by linear_combination h.2.2.1,
    by linear_combination h.2.2.2.1, by linear_combination h.2.2.2.2.1, by linear_combination h.2.2.2.2.2.1,
    by linear_combination h.2.2.2.2.2.2⟩

/-- **gimbal branch, 'rxyx'** (sin aj = 0): one outer angle is returned as 0 and the other as `arctan2(y, x)` with
    `x² + y² = 1`; these angles rebuild exactly the matrix they were read from (matrix → angles → matrix) -/
theorem C19_euler_from_matrix_gimbal_rxyx (c_i s_i c_j s_j c_k s_k : K) (hi : c_i ^ 2 + s_i ^ 2 = 1) (hj : c_j ^ 2 + s_j ^ 2 = 1) (hk : c_k ^ 2 + s_k ^ 2 = 1) (hg : s_j = 0) :
    (g_rxyx_x2 (euler_rxyx c_i s_i c_j s_j c_k s_k) 0) ^ 2 + (g_rxyx_y2 (euler_rxyx c_i s_i c_j s_j c_k s_k) 0) ^ 2 = 1 ∧
    euler_rxyx 1 0 c_j s_j (g_rxyx_x2 (euler_rxyx c_i s_i c_j s_j c_k s_k) 0) (g_rxyx_y2 (euler_rxyx c_i s_i c_j s_j c_k s_k) 0) = euler_rxyx c_i s_i c_j s_j c_k s_k :=
  g_rxyx_spec c_i s_i c_j s_j c_k s_k hi hj hk hg

/-- **gimbal branch, 'rxyz'** (cos aj = 0): one outer angle is returned as 0 and the other as `arctan2(y, x)` with
    `x² + y² = 1`; these angles rebuild exactly the matrix they were read from (matrix → angles → matrix) -/
theorem C19_euler_from_matrix_gimbal_rxyz (c_i s_i c_j s_j c_k s_k : K) (hi : c_i ^ 2 + s_i ^ 2 = 1) (hj : c_j ^ 2 + s_j ^ 2 = 1) (hk : c_k ^ 2 + s_k ^ 2 = 1) (hg : c_j = 0) :
    (g_rxyz_x2 (euler_rxyz c_i s_i c_j s_j c_k s_k) 0) ^ 2 + (g_rxyz_y2 (euler_rxyz c_i s_i c_j s_j c_k s_k) 0) ^ 2 = 1 ∧
    euler_rxyz 1 0 c_j s_j (g_rxyz_x2 (euler_rxyz c_i s_i c_j s_j c_k s_k) 0) (g_rxyz_y2 (euler_rxyz c_i s_i c_j s_j c_k s_k) 0) = euler_rxyz c_i s_i c_j s_j c_k s_k :=
  g_rxyz_spec c_i s_i c_j s_j c_k s_k hi hj hk hg

/-- **gimbal branch, 'rxzx'** (sin aj = 0): one outer angle is returned as 0 and the other as `arctan2(y, x)` with
    `x² + y² = 1`; these angles rebuild exactly the matrix they were read from (matrix → angles → matrix) -/
theorem C19_euler_from_matrix_gimbal_rxzx (c_i s_i c_j s_j c_k s_k : K) (hi : c_i ^ 2 + s_i ^ 2 = 1) (hj : c_j ^ 2 + s_j ^ 2 = 1) (hk : c_k ^ 2 + s_k ^ 2 = 1) (hg : s_j = 0) :
    (g_rxzx_x2 (euler_rxzx c_i s_i c_j s_j c_k s_k) 0) ^ 2 + (g_rxzx_y2 (euler_rxzx c_i s_i c_j s_j c_k s_k) 0) ^ 2 = 1 ∧
    euler_rxzx 1 0 c_j s_j (g_rxzx_x2 (euler_rxzx c_i s_i c_j s_j c_k s_k) 0) (g_rxzx_y2 (euler_rxzx c_i s_i c_j s_j c_k s_k) 0) = euler_rxzx c_i s_i c_j s_j c_k s_k :=
  g_rxzx_spec c_i s_i c_j s_j c_k s_k hi hj hk hg

/-- **gimbal branch, 'rxzy'** (cos aj = 0): one outer angle is returned as 0 and the other as `arctan2(y, x)` with
    `x² + y² = 1`; these angles rebuild exactly the matrix they were read from (matrix → angles → matrix) -/
theorem C19_euler_from_matrix_gimbal_rxzy (c_i s_i c_j s_j c_k s_k : K) (hi : c_i ^ 2 + s_i ^ 2 = 1) (hj : c_j ^ 2 + s_j ^ 2 = 1) (hk : c_k ^ 2 + s_k ^ 2 = 1) (hg : c_j = 0) :
    (g_rxzy_x2 (euler_rxzy c_i s_i c_j s_j c_k s_k) 0) ^ 2 + (g_rxzy_y2 (euler_rxzy c_i s_i c_j s_j c_k s_k) 0) ^ 2 = 1 ∧
    euler_rxzy 1 0 c_j s_j (g_rxzy_x2 (euler_rxzy c_i s_i c_j s_j c_k s_k) 0) (g_rxzy_y2 (euler_rxzy c_i s_i c_j s_j c_k s_k) 0) = euler_rxzy c_i s_i c_j s_j c_k s_k :=
  g_rxzy_spec c_i s_i c_j s_j c_k s_k hi hj hk hg

/-- **gimbal branch, 'ryxy'** (sin aj = 0): one outer angle is returned as 0 and the other as `arctan2(y, x)` with
    `x² + y² = 1`; these angles rebuild exactly the matrix they were read from (matrix → angles → matrix) -/
theorem C19_euler_from_matrix_gimbal_ryxy (c_i s_i c_j s_j c_k s_k : K) (hi : c_i ^ 2 + s_i ^ 2 = 1) (hj : c_j ^ 2 + s_j ^ 2 = 1) (hk : c_k ^ 2 + s_k ^ 2 = 1) (hg : s_j = 0) :
    (g_ryxy_x2 (euler_ryxy c_i s_i c_j s_j c_k s_k) 0) ^ 2 + (g_ryxy_y2 (euler_ryxy c_i s_i c_j s_j c_k s_k) 0) ^ 2 = 1 ∧
    euler_ryxy 1 0 c_j s_j (g_ryxy_x2 (euler_ryxy c_i s_i c_j s_j c_k s_k) 0) (g_ryxy_y2 (euler_ryxy c_i s_i c_j s_j c_k s_k) 0) = euler_ryxy c_i s_i c_j s_j c_k s_k :=
  g_ryxy_spec c_i s_i c_j s_j c_k s_k hi hj hk hg

/-- **gimbal branch, 'ryxz'** (cos aj = 0): one outer angle is returned as 0 and the other as `arctan2(y, x)` with
    `x² + y² = 1`; these angles rebuild exactly the matrix they were read from (matrix → angles → matrix) -/
theorem C19_euler_from_matrix_gimbal_ryxz (c_i s_i c_j s_j c_k s_k : K) (hi : c_i ^ 2 + s_i ^ 2 = 1) (hj : c_j ^ 2 + s_j ^ 2 = 1) (hk : c_k ^ 2 + s_k ^ 2 = 1) (hg : c_j = 0) :
    (g_ryxz_x2 (euler_ryxz c_i s_i c_j s_j c_k s_k) 0) ^ 2 + (g_ryxz_y2 (euler_ryxz c_i s_i c_j s_j c_k s_k) 0) ^ 2 = 1 ∧
    euler_ryxz 1 0 c_j s_j (g_ryxz_x2 (euler_ryxz c_i s_i c_j s_j c_k s_k) 0) (g_ryxz_y2 (euler_ryxz c_i s_i c_j s_j c_k s_k) 0) = euler_ryxz c_i s_i c_j s_j c_k s_k :=
  g_ryxz_spec c_i s_i c_j s_j c_k s_k hi hj hk hg

/-- **gimbal branch, 'ryzx'** (cos aj = 0): one outer angle is returned as 0 and the other as `arctan2(y, x)` with
    `x² + y² = 1`; these angles rebuild exactly the matrix they were read from (matrix → angles → matrix) -/
theorem C19_euler_from_matrix_gimbal_ryzx (c_i s_i c_j s_j c_k s_k : K) (hi : c_i ^ 2 + s_i ^ 2 = 1) (hj : c_j ^ 2 + s_j ^ 2 = 1) (hk : c_k ^ 2 + s_k ^ 2 = 1) (hg : c_j = 0) :
    (g_ryzx_x2 (euler_ryzx c_i s_i c_j s_j c_k s_k) 0) ^ 2 + (g_ryzx_y2 (euler_ryzx c_i s_i c_j s_j c_k s_k) 0) ^ 2 = 1 ∧
    euler_ryzx 1 0 c_j s_j (g_ryzx_x2 (euler_ryzx c_i s_i c_j s_j c_k s_k) 0) (g_ryzx_y2 (euler_ryzx c_i s_i c_j s_j c_k s_k) 0) = euler_ryzx c_i s_i c_j s_j c_k s_k :=
  g_ryzx_spec c_i s_i c_j s_j c_k s_k hi hj hk hg

/-- **gimbal branch, 'ryzy'** (sin aj = 0): one outer angle is returned as 0 and the other as `arctan2(y, x)` with
    `x² + y² = 1`; these angles rebuild exactly the matrix they were read from (matrix → angles → matrix) -/
theorem C19_euler_from_matrix_gimbal_ryzy (c_i s_i c_j s_j c_k s_k : K) (hi : c_i ^ 2 + s_i ^ 2 = 1) (hj : c_j ^ 2 + s_j ^ 2 = 1) (hk : c_k ^ 2 + s_k ^ 2 = 1) (hg : s_j = 0) :
    (g_ryzy_x2 (euler_ryzy c_i s_i c_j s_j c_k s_k) 0) ^ 2 + (g_ryzy_y2 (euler_ryzy c_i s_i c_j s_j c_k s_k) 0) ^ 2 = 1 ∧
    euler_ryzy 1 0 c_j s_j (g_ryzy_x2 (euler_ryzy c_i s_i c_j s_j c_k s_k) 0) (g_ryzy_y2 (euler_ryzy c_i s_i c_j s_j c_k s_k) 0) = euler_ryzy c_i s_i c_j s_j c_k s_k :=
  g_ryzy_spec c_i s_i c_j s_j c_k s_k hi hj hk hg

/-- **gimbal branch, 'rzxy'** (cos aj = 0): one outer angle is returned as 0 and the other as `arctan2(y, x)` with
    `x² + y² = 1`; these angles rebuild exactly the matrix they were read from (matrix → angles → matrix) -/
theorem C19_euler_from_matrix_gimbal_rzxy (c_i s_i c_j s_j c_k s_k : K) (hi : c_i ^ 2 + s_i ^ 2 = 1) (hj : c_j ^ 2 + s_j ^ 2 = 1) (hk : c_k ^ 2 + s_k ^ 2 = 1) (hg : c_j = 0) :
    (g_rzxy_x2 (euler_rzxy c_i s_i c_j s_j c_k s_k) 0) ^ 2 + (g_rzxy_y2 (euler_rzxy c_i s_i c_j s_j c_k s_k) 0) ^ 2 = 1 ∧
    euler_rzxy 1 0 c_j s_j (g_rzxy_x2 (euler_rzxy c_i s_i c_j s_j c_k s_k) 0) (g_rzxy_y2 (euler_rzxy c_i s_i c_j s_j c_k s_k) 0) = euler_rzxy c_i s_i c_j s_j c_k s_k :=
  g_rzxy_spec c_i s_i c_j s_j c_k s_k hi hj hk hg

/-- **gimbal branch, 'rzxz'** (sin aj = 0): one outer angle is returned as 0 and the other as `arctan2(y, x)` with
    `x² + y² = 1`; these angles rebuild exactly the matrix they were read from (matrix → angles → matrix) -/
theorem C19_euler_from_matrix_gimbal_rzxz (c_i s_i c_j s_j c_k s_k : K) (hi : c_i ^ 2 + s_i ^ 2 = 1) (hj : c_j ^ 2 + s_j ^ 2 = 1) (hk : c_k ^ 2 + s_k ^ 2 = 1) (hg : s_j = 0) :
    (g_rzxz_x2 (euler_rzxz c_i s_i c_j s_j c_k s_k) 0) ^ 2 + (g_rzxz_y2 (euler_rzxz c_i s_i c_j s_j c_k s_k) 0) ^ 2 = 1 ∧
    euler_rzxz 1 0 c_j s_j (g_rzxz_x2 (euler_rzxz c_i s_i c_j s_j c_k s_k) 0) (g_rzxz_y2 (euler_rzxz c_i s_i c_j s_j c_k s_k) 0) = euler_rzxz c_i s_i c_j s_j c_k s_k :=
  g_rzxz_spec c_i s_i c_j s_j c_k s_k hi hj hk hg

/-- **gimbal branch, 'rzyx'** (cos aj = 0): one outer angle is returned as 0 and the other as `arctan2(y, x)` with
    `x² + y² = 1`; these angles rebuild exactly the matrix they were read from (matrix → angles → matrix) -/
theorem C19_euler_from_matrix_gimbal_rzyx (c_i s_i c_j s_j c_k s_k : K) (hi : c_i ^ 2 + s_i ^ 2 = 1) (hj : c_j ^ 2 + s_j ^ 2 = 1) (hk : c_k ^ 2 + s_k ^ 2 = 1) (hg : c_j = 0) :
    (g_rzyx_x2 (euler_rzyx c_i s_i c_j s_j c_k s_k) 0) ^ 2 + (g_rzyx_y2 (euler_rzyx c_i s_i c_j s_j c_k s_k) 0) ^ 2 = 1 ∧
    euler_rzyx 1 0 c_j s_j (g_rzyx_x2 (euler_rzyx c_i s_i c_j s_j c_k s_k) 0) (g_rzyx_y2 (euler_rzyx c_i s_i c_j s_j c_k s_k) 0) = euler_rzyx c_i s_i c_j s_j c_k s_k :=
  g_rzyx_spec c_i s_i c_j s_j c_k s_k hi hj hk hg

/-- **gimbal branch, 'rzyz'** (sin aj = 0): one outer angle is returned as 0 and the other as `arctan2(y, x)` with
    `x² + y² = 1`; these angles rebuild exactly the matrix they were read from (matrix → angles → matrix) -/
theorem C19_euler_from_matrix_gimbal_rzyz (c_i s_i c_j s_j c_k s_k : K) (hi : c_i ^ 2 + s_i ^ 2 = 1) (hj : c_j ^ 2 + s_j ^ 2 = 1) (hk : c_k ^ 2 + s_k ^ 2 = 1) (hg : s_j = 0) :
    (g_rzyz_x2 (euler_rzyz c_i s_i c_j s_j c_k s_k) 0) ^ 2 + (g_rzyz_y2 (euler_rzyz c_i s_i c_j s_j c_k s_k) 0) ^ 2 = 1 ∧
    euler_rzyz 1 0 c_j s_j (g_rzyz_x2 (euler_rzyz c_i s_i c_j s_j c_k s_k) 0) (g_rzyz_y2 (euler_rzyz c_i s_i c_j s_j c_k s_k) 0) = euler_rzyz c_i s_i c_j s_j c_k s_k :=
  g_rzyz_spec c_i s_i c_j s_j c_k s_k hi hj hk hg

/-- **gimbal branch, 'sxyx'** (sin aj = 0): one outer angle is returned as 0 and the other as `arctan2(y, x)` with
    `x² + y² = 1`; these angles rebuild exactly the matrix they were read from (matrix → angles → matrix) -/
theorem C19_euler_from_matrix_gimbal_sxyx (c_i s_i c_j s_j c_k s_k : K) (hi : c_i ^ 2 + s_i ^ 2 = 1) (hj : c_j ^ 2 + s_j ^ 2 = 1) (hk : c_k ^ 2 + s_k ^ 2 = 1) (hg : s_j = 0) :
    (g_sxyx_x0 (euler_sxyx c_i s_i c_j s_j c_k s_k) 0) ^ 2 + (g_sxyx_y0 (euler_sxyx c_i s_i c_j s_j c_k s_k) 0) ^ 2 = 1 ∧
    euler_sxyx (g_sxyx_x0 (euler_sxyx c_i s_i c_j s_j c_k s_k) 0) (g_sxyx_y0 (euler_sxyx c_i s_i c_j s_j c_k s_k) 0) c_j s_j 1 0 = euler_sxyx c_i s_i c_j s_j c_k s_k :=
  g_sxyx_spec c_i s_i c_j s_j c_k s_k hi hj hk hg

/-- **gimbal branch, 'sxyz'** (cos aj = 0): one outer angle is returned as 0 and the other as `arctan2(y, x)` with
    `x² + y² = 1`; these angles rebuild exactly the matrix they were read from (matrix → angles → matrix) -/
theorem C19_euler_from_matrix_gimbal_sxyz (c_i s_i c_j s_j c_k s_k : K) (hi : c_i ^ 2 + s_i ^ 2 = 1) (hj : c_j ^ 2 + s_j ^ 2 = 1) (hk : c_k ^ 2 + s_k ^ 2 = 1) (hg : c_j = 0) :
    (g_sxyz_x0 (euler_sxyz c_i s_i c_j s_j c_k s_k) 0) ^ 2 + (g_sxyz_y0 (euler_sxyz c_i s_i c_j s_j c_k s_k) 0) ^ 2 = 1 ∧
    euler_sxyz (g_sxyz_x0 (euler_sxyz c_i s_i c_j s_j c_k s_k) 0) (g_sxyz_y0 (euler_sxyz c_i s_i c_j s_j c_k s_k) 0) c_j s_j 1 0 = euler_sxyz c_i s_i c_j s_j c_k s_k :=
  g_sxyz_spec c_i s_i c_j s_j c_k s_k hi hj hk hg

/-- **gimbal branch, 'sxzx'** (sin aj = 0): one outer angle is returned as 0 and the other as `arctan2(y, x)` with
    `x² + y² = 1`; these angles rebuild exactly the matrix they were read from (matrix → angles → matrix) -/
theorem C19_euler_from_matrix_gimbal_sxzx (c_i s_i c_j s_j c_k s_k : K) (hi : c_i ^ 2 + s_i ^ 2 = 1) (hj : c_j ^ 2 + s_j ^ 2 = 1) (hk : c_k ^ 2 + s_k ^ 2 = 1) (hg : s_j = 0) :
    (g_sxzx_x0 (euler_sxzx c_i s_i c_j s_j c_k s_k) 0) ^ 2 + (g_sxzx_y0 (euler_sxzx c_i s_i c_j s_j c_k s_k) 0) ^ 2 = 1 ∧
    euler_sxzx (g_sxzx_x0 (euler_sxzx c_i s_i c_j s_j c_k s_k) 0) (g_sxzx_y0 (euler_sxzx c_i s_i c_j s_j c_k s_k) 0) c_j s_j 1 0 = euler_sxzx c_i s_i c_j s_j c_k s_k :=
  g_sxzx_spec c_i s_i c_j s_j c_k s_k hi hj hk hg

/-- **gimbal branch, 'sxzy'** (cos aj = 0): one outer angle is returned as 0 and the other as `arctan2(y, x)` with
    `x² + y² = 1`; these angles rebuild exactly the matrix they were read from (matrix → angles → matrix) -/
theorem C19_euler_from_matrix_gimbal_sxzy (c_i s_i c_j s_j c_k s_k : K) (hi : c_i ^ 2 + s_i ^ 2 = 1) (hj : c_j ^ 2 + s_j ^ 2 = 1) (hk : c_k ^ 2 + s_k ^ 2 = 1) (hg : c_j = 0) :
    (g_sxzy_x0 (euler_sxzy c_i s_i c_j s_j c_k s_k) 0) ^ 2 + (g_sxzy_y0 (euler_sxzy c_i s_i c_j s_j c_k s_k) 0) ^ 2 = 1 ∧
    euler_sxzy (g_sxzy_x0 (euler_sxzy c_i s_i c_j s_j c_k s_k) 0) (g_sxzy_y0 (euler_sxzy c_i s_i c_j s_j c_k s_k) 0) c_j s_j 1 0 = euler_sxzy c_i s_i c_j s_j c_k s_k :=
  g_sxzy_spec c_i s_i c_j s_j c_k s_k hi hj hk hg

/-- **gimbal branch, 'syxy'** (sin aj = 0): one outer angle is returned as 0 and the other as `arctan2(y, x)` with
    `x² + y² = 1`; these angles rebuild exactly the matrix they were read from (matrix → angles → matrix) -/
theorem C19_euler_from_matrix_gimbal_syxy (c_i s_i c_j s_j c_k s_k : K) (hi : c_i ^ 2 + s_i ^ 2 = 1) (hj : c_j ^ 2 + s_j ^ 2 = 1) (hk : c_k ^ 2 + s_k ^ 2 = 1) (hg : s_j = 0) :
    (g_syxy_x0 (euler_syxy c_i s_i c_j s_j c_k s_k) 0) ^ 2 + (g_syxy_y0 (euler_syxy c_i s_i c_j s_j c_k s_k) 0) ^ 2 = 1 ∧
    euler_syxy (g_syxy_x0 (euler_syxy c_i s_i c_j s_j c_k s_k) 0) (g_syxy_y0 (euler_syxy c_i s_i c_j s_j c_k s_k) 0) c_j s_j 1 0 = euler_syxy c_i s_i c_j s_j c_k s_k :=
  g_syxy_spec c_i s_i c_j s_j c_k s_k hi hj hk hg

/-- **gimbal branch, 'syxz'** (cos aj = 0): one outer angle is returned as 0 and the other as `arctan2(y, x)` with
    `x² + y² = 1`; these angles rebuild exactly the matrix they were read from (matrix → angles → matrix) -/
theorem C19_euler_from_matrix_gimbal_syxz (c_i s_i c_j s_j c_k s_k : K) (hi : c_i ^ 2 + s_i ^ 2 = 1) (hj : c_j ^ 2 + s_j ^ 2 = 1) (hk : c_k ^ 2 + s_k ^ 2 = 1) (hg : c_j = 0) :
    (g_syxz_x0 (euler_syxz c_i s_i c_j s_j c_k s_k) 0) ^ 2 + (g_syxz_y0 (euler_syxz c_i s_i c_j s_j c_k s_k) 0) ^ 2 = 1 ∧
    euler_syxz (g_syxz_x0 (euler_syxz c_i s_i c_j s_j c_k s_k) 0) (g_syxz_y0 (euler_syxz c_i s_i c_j s_j c_k s_k) 0) c_j s_j 1 0 = euler_syxz c_i s_i c_j s_j c_k s_k :=
  g_syxz_spec c_i s_i c_j s_j c_k s_k hi hj hk hg

/-- **gimbal branch, 'syzx'** (cos aj = 0): one outer angle is returned as 0 and the other as `arctan2(y, x)` with
    `x² + y² = 1`; these angles rebuild exactly the matrix they were read from (matrix → angles → matrix) -/
theorem C19_euler_from_matrix_gimbal_syzx (c_i s_i c_j s_j c_k s_k : K) (hi : c_i ^ 2 + s_i ^ 2 = 1) (hj : c_j ^ 2 + s_j ^ 2 = 1) (hk : c_k ^ 2 + s_k ^ 2 = 1) (hg : c_j = 0) :
    (g_syzx_x0 (euler_syzx c_i s_i c_j s_j c_k s_k) 0) ^ 2 + (g_syzx_y0 (euler_syzx c_i s_i c_j s_j c_k s_k) 0) ^ 2 = 1 ∧
    euler_syzx (g_syzx_x0 (euler_syzx c_i s_i c_j s_j c_k s_k) 0) (g_syzx_y0 (euler_syzx c_i s_i c_j s_j c_k s_k) 0) c_j s_j 1 0 = euler_syzx c_i s_i c_j s_j c_k s_k :=
  g_syzx_spec c_i s_i c_j s_j c_k s_k hi hj hk hg

/-- **gimbal branch, 'syzy'** (sin aj = 0): one outer angle is returned as 0 and the other as `arctan2(y, x)` with
    `x² + y² = 1`; these angles rebuild exactly the matrix they were read from (matrix → angles → matrix) -/
theorem C19_euler_from_matrix_gimbal_syzy (c_i s_i c_j s_j c_k s_k : K) (hi : c_i ^ 2 + s_i ^ 2 = 1) (hj : c_j ^ 2 + s_j ^ 2 = 1) (hk : c_k ^ 2 + s_k ^ 2 = 1) (hg : s_j = 0) :
    (g_syzy_x0 (euler_syzy c_i s_i c_j s_j c_k s_k) 0) ^ 2 + (g_syzy_y0 (euler_syzy c_i s_i c_j s_j c_k s_k) 0) ^ 2 = 1 ∧
    euler_syzy (g_syzy_x0 (euler_syzy c_i s_i c_j s_j c_k s_k) 0) (g_syzy_y0 (euler_syzy c_i s_i c_j s_j c_k s_k) 0) c_j s_j 1 0 = euler_syzy c_i s_i c_j s_j c_k s_k :=
  g_syzy_spec c_i s_i c_j s_j c_k s_k hi hj hk hg

/-- **gimbal branch, 'szxy'** (cos aj = 0): one outer angle is returned as 0 and the other as `arctan2(y, x)` with
    `x² + y² = 1`; these angles rebuild exactly the matrix they were read from (matrix → angles → matrix) -/
theorem C19_euler_from_matrix_gimbal_szxy (c_i s_i c_j s_j c_k s_k : K) (hi : c_i ^ 2 + s_i ^ 2 = 1) (hj : c_j ^ 2 + s_j ^ 2 = 1) (hk : c_k ^ 2 + s_k ^ 2 = 1) (hg : c_j = 0) :
    (g_szxy_x0 (euler_szxy c_i s_i c_j s_j c_k s_k) 0) ^ 2 + (g_szxy_y0 (euler_szxy c_i s_i c_j s_j c_k s_k) 0) ^ 2 = 1 ∧
    euler_szxy (g_szxy_x0 (euler_szxy c_i s_i c_j s_j c_k s_k) 0) (g_szxy_y0 (euler_szxy c_i s_i c_j s_j c_k s_k) 0) c_j s_j 1 0 = euler_szxy c_i s_i c_j s_j c_k s_k :=
  g_szxy_spec c_i s_i c_j s_j c_k s_k hi hj hk hg

/-- **gimbal branch, 'szxz'** (sin aj = 0): one outer angle is returned as 0 and the other as `arctan2(y, x)` with
    `x² + y² = 1`; these angles rebuild exactly the matrix they were read from (matrix → angles → matrix) -/
theorem C19_euler_from_matrix_gimbal_szxz (c_i s_i c_j s_j c_k s_k : K) (hi : c_i ^ 2 + s_i ^ 2 = 1) (hj : c_j ^ 2 + s_j ^ 2 = 1) (hk : c_k ^ 2 + s_k ^ 2 = 1) (hg : s_j = 0) :
    (g_szxz_x0 (euler_szxz c_i s_i c_j s_j c_k s_k) 0) ^ 2 + (g_szxz_y0 (euler_szxz c_i s_i c_j s_j c_k s_k) 0) ^ 2 = 1 ∧
    euler_szxz (g_szxz_x0 (euler_szxz c_i s_i c_j s_j c_k s_k) 0) (g_szxz_y0 (euler_szxz c_i s_i c_j s_j c_k s_k) 0) c_j s_j 1 0 = euler_szxz c_i s_i c_j s_j c_k s_k :=
  g_szxz_spec c_i s_i c_j s_j c_k s_k hi hj hk hg

/-- **gimbal branch, 'szyx'** (cos aj = 0): one outer angle is returned as 0 and the other as `arctan2(y, x)` with
    `x² + y² = 1`; these angles rebuild exactly the matrix they were read from (matrix → angles → matrix) -/
theorem C19_euler_from_matrix_gimbal_szyx (c_i s_i c_j s_j c_k s_k : K) (hi : c_i ^ 2 + s_i ^ 2 = 1) (hj : c_j ^ 2 + s_j ^ 2 = 1) (hk : c_k ^ 2 + s_k ^ 2 = 1) (hg : c_j = 0) :
    (g_szyx_x0 (euler_szyx c_i s_i c_j s_j c_k s_k) 0) ^ 2 + (g_szyx_y0 (euler_szyx c_i s_i c_j s_j c_k s_k) 0) ^ 2 = 1 ∧
    euler_szyx (g_szyx_x0 (euler_szyx c_i s_i c_j s_j c_k s_k) 0) (g_szyx_y0 (euler_szyx c_i s_i c_j s_j c_k s_k) 0) c_j s_j 1 0 = euler_szyx c_i s_i c_j s_j c_k s_k :=
  g_szyx_spec c_i s_i c_j s_j c_k s_k hi hj hk hg

/-- **gimbal branch, 'szyz'** (sin aj = 0): one outer angle is returned as 0 and the other as `arctan2(y, x)` with
    `x² + y² = 1`; these angles rebuild exactly the matrix they were read from (matrix → angles → matrix) -/
theorem C19_euler_from_matrix_gimbal_szyz (c_i s_i c_j s_j c_k s_k : K) (hi : c_i ^ 2 + s_i ^ 2 = 1) (hj : c_j ^ 2 + s_j ^ 2 = 1) (hk : c_k ^ 2 + s_k ^ 2 = 1) (hg : s_j = 0) :
    (g_szyz_x0 (euler_szyz c_i s_i c_j s_j c_k s_k) 0) ^ 2 + (g_szyz_y0 (euler_szyz c_i s_i c_j s_j c_k s_k) 0) ^ 2 = 1 ∧
    euler_szyz (g_szyz_x0 (euler_szyz c_i s_i c_j s_j c_k s_k) 0) (g_szyz_y0 (euler_szyz c_i s_i c_j s_j c_k s_k) 0) c_j s_j 1 0 = euler_szyz c_i s_i c_j s_j c_k s_k :=
  g_szyz_spec c_i s_i c_j s_j c_k s_k hi hj hk hg

/-- (G) the axis table of the source still encodes the 24 conventions -/
theorem C19_axes_table : axes2tuple.length = 24 ∧ nextAxis = [1, 2, 0, 1] := by decide

end TV.C19
