/-
C20 — Loading arbitrary or corrupted bytes terminates with a clean outcome.
Property theorems only; helper lemmas live in Proofs/Load.lean.  Termination of every decoder below is
what Lean's definitional check already established (all are structurally recursive, no fuel supplied by the
caller except `binChunks`, whose fuel is the input length); the theorems bound the work and the allocation
by the input size and show that the resource skeleton closes what it opens.
-/
import TrimeshVerif.Proofs.Load
import TrimeshVerif.Generated.C20Skeleton
import TrimeshVerif.Generated.C20Strided
namespace TV.C20
open TV.Codec TV.Load

/-- the enumerator misses no execution: every execution of the relational semantics is in `runBlock` -/
theorem C20_run_complete (prog : List Stmt) (s s' : St) (st : Status) (h : ExecBlock prog s s' st) :
    (s', st) ∈ runBlock prog s :=
  execBlock_mem h

/-- **a file the loader opened itself is closed on every path**: if the (generated) skeleton passes the
    decidable check, no execution - normal return, early return, exception from any call, explicit raise -
    ends with the file still open -/
theorem C20_closes (prog : List Stmt) (h : safe prog = true) (s' : St) (st : Status)
    (he : ExecBlock prog {} s' st) : s'.leak = false :=
  safe_closes prog h s' st he

/-- the check is not vacuous: forgetting to set `was_opened` on one branch is caught, the correct shape passes -/
theorem C20_leak_witness :
    safe [.branch [[.openFile, .branch [[.setFlag], []]], []], .tryFinally [.mayRaise] [.closeIfFlag]] = false ∧
    safe [.branch [[.openFile, .setFlag], [.raise], []], .tryFinally [.mayRaise, .ret] [.closeIfFlag]] = true := by
  decide

/-- **binary STL never allocates beyond the input**: an accepted file has exactly the announced length -/
theorem C20_stl_alloc (b hdr : Bytes) (recs : List StlRec) (h : decodeStl b = .ok (hdr, recs)) :
    84 + 50 * recs.length = b.length :=
  (decodeStl_accepts b hdr recs h).1.symm

/-- a binary STL whose count field disagrees with the data length is rejected before any record is read -/
theorem C20_stl_rejects (b : Bytes) (h84 : 84 ≤ b.length) (hne : b.length - 84 ≠ 50 * de32 ((b.drop 80).take 4)) :
    decodeStl b = .error .badLength := by
  unfold decodeStl
  rw [if_neg (by omega), if_pos hne]

/-- **GLB: everything read is bounded by the bytes present** (chunk lengths are checked against the data) -/
theorem C20_glb_alloc (b json : Bytes) (cs : List Bytes) (h : decodeGlb b = .ok (json, cs)) :
    json.length + (cs.map List.length).sum + 8 * cs.length ≤ b.length :=
  decodeGlb_bound b json cs h

/-- the GLB chunk loop runs at most once per 8 bytes of input -/
theorem C20_glb_steps (fuel : Nat) (rest : Bytes) (consumed length : Nat) (cs : List Bytes)
    (h : binChunks fuel rest consumed length = .ok cs) : 8 * cs.length ≤ rest.length := by
  have := binChunks_bound fuel rest consumed length cs h
  omega

/-- **the PLY header scan consumes each line at most once** -/
theorem C20_scan_steps (lines : List (List String)) (acc : List Elem) (n : Nat) (es : List Elem) (k : Nat)
    (h : scanHeader lines acc n = .ok (es, k)) : n < k ∧ k ≤ n + lines.length ∧ es.length ≤ acc.length + lines.length :=
  scanHeader_steps lines acc n es k h

/-- **a header that never reaches `end_header` is rejected** (truncated files do not hang) -/
theorem C20_scan_eof (lines : List (List String)) (acc : List Elem) (n : Nat)
    (h : ∀ l ∈ lines, l.contains "end_header" = false) : ∃ e, scanHeader lines acc n = .error e :=
  scanHeader_eof lines acc n h

/-! ### the skeletons read from the current source (Generated/C20Skeleton.lean, rewritten on every run) -/

/-- contract of `_parse_file_args`: it returns with `was_opened` set whenever it opened a file, and it does
    not raise after opening one -/
def argsContract (prog : List Stmt) : Bool :=
  (runBlock prog {}).all (fun r => if r.2 = .raised then !r.1.leak else (!r.1.opened || r.1.flag))

theorem C20_parse_file_args_contract :
    argsContract TV.Generated.parseFileArgsPath = true ∧ argsContract TV.Generated.parseFileArgsOther = true := by
  decide

/-- **`load` / `load_mesh` / `load_scene` given a path close the file they opened, on every path** -/
theorem C20_load_scene_closes (s' : St) (st : Status) (he : ExecBlock TV.Generated.loadScenePath {} s' st) :
    s'.leak = false := C20_closes _ (by decide) s' st he

/-- **`load_path` given a path closes the file it opened, on every path** -/
theorem C20_load_path_closes (s' : St) (st : Status) (he : ExecBlock TV.Generated.loadPathPath {} s' st) :
    s'.leak = false := C20_closes _ (by decide) s' st he

/-- given anything but a path, the loaders open nothing themselves -/
theorem C20_other_inputs_open_nothing :
    safe TV.Generated.loadSceneOther = true ∧ safe TV.Generated.loadPathOther = true ∧
    (runBlock TV.Generated.loadSceneOther {}).all (fun r => !r.1.opened) = true ∧
    (runBlock TV.Generated.loadPathOther {}).all (fun r => !r.1.opened) = true := by
  decide

/-- the generated skeletons really contain the open they are about (not vacuous) -/
theorem C20_skeleton_opens :
    (runBlock TV.Generated.loadScenePath {}).any (fun r => r.1.opened) = true ∧
    (runBlock TV.Generated.loadPathPath {}).any (fun r => r.1.opened) = true := by
  decide

/-- **glTF interleaved accessors never read outside the buffer view**: when the two guards of the `byteStride` branch
    hold, every byte of every row of the strided view lies inside the data (`0 ≤ position < len(data)`), for every
    row count, stride, row width and offset a file can announce - `as_strided` itself checks nothing, so this is
    what stands between a corrupt `byteStride` / `count` and a read of foreign memory -/
theorem C20_glb_strided_in_bounds (n start stride count perRow i j : Int)
    (h : stridedOk n start stride count perRow = true)
    (hi0 : 0 ≤ i) (hi : i < count) (hj0 : 0 ≤ j) (hj : j < perRow) :
    0 ≤ stridedIndex start stride i j ∧ stridedIndex start stride i j < n := by
  unfold stridedOk at h
  simp only [Bool.and_eq_true, decide_eq_true_eq] at h
  obtain ⟨⟨⟨hs, h0⟩, _⟩, hn⟩ := h
  unfold stridedIndex
  have h1 : i * stride ≤ (count - 1) * stride := Int.mul_le_mul_of_nonneg_right (by omega) (by omega)
  have h2 : 0 ≤ i * stride := Int.mul_nonneg hi0 (by omega)
  generalize i * stride = a at *
  generalize (count - 1) * stride = b at *
  omega

/-- and what is copied out of it is bounded by the bytes present: at most `per_row` bytes per byte of the view
    (rows may overlap when the stride is shorter than a row; a row is at most one 4x4 float matrix) -/
theorem C20_glb_strided_alloc (n start stride count perRow : Int)
    (h : stridedOk n start stride count perRow = true) (hc : 1 ≤ count) (hp : 0 ≤ perRow) :
    count * perRow ≤ (n - start + 1) * perRow := by
  unfold stridedOk at h
  simp only [Bool.and_eq_true, decide_eq_true_eq] at h
  obtain ⟨⟨⟨hs, h0⟩, _⟩, hn⟩ := h
  apply Int.mul_le_mul_of_nonneg_right _ hp
  have h1 : (count - 1) * 1 ≤ (count - 1) * stride := Int.mul_le_mul_of_nonneg_left (by omega) (by omega)
  generalize (count - 1) * stride = b at *
  omega

/-- **(G) the guards and the view of the source are the model's**: read from `gltf._read_buffers` by `ast` on every
    run - both asserts, standing before the view is built, the definition of `length`, the shape and strides handed
    to `as_strided` and the byte window taken with `frombuffer(offset=start, count=length)` -/
theorem C20_glb_strided_of_source :
    TV.Generated.C20.stridedGuards = ["stride > 0", "0 <= start <= start + length <= len(data)"] ∧
    TV.Generated.C20.stridedGuardsFirst = true ∧
    TV.Generated.C20.stridedLength = "(count - 1) * stride + per_row" ∧
    TV.Generated.C20.stridedShape = "[count, per_row]" ∧ TV.Generated.C20.stridedStrides = "[stride, 1]" ∧
    TV.Generated.C20.stridedWindow = [("count", "length"), ("dtype", "np.uint8"), ("offset", "start")] := by
  decide

/-- non-vacuity: an interleaved view of three 12-byte rows, 16 bytes apart, 4 bytes into 48 bytes passes the guards;
    the same with a row count of 2^40 does not -/
example : stridedOk 48 4 16 3 12 = true ∧ stridedOk 48 4 16 (2 ^ 40) 12 = false ∧ stridedOk 48 4 0 3 12 = false := by
  decide

end TV.C20
